#!/bin/bash
# offline setup: nothing to build; verify the tools and parse every specification once
set -e
cd "$(dirname "$0")"
java -version 2>&1 | head -1
/venv/bin/python -c "import numpy, sympy, pandas; print('python deps ok')"
tmp=$(mktemp -d)
cp spec/*.tla spec/trace/*.tla "$tmp"/
for f in "$tmp"/*.tla; do
  (cd "$tmp" && java -cp /opt/veriftools/tla/tla2tools.jar tla2sany.SANY "$(basename $f)" > "$tmp/sany.log" 2>&1) || { cat "$tmp/sany.log"; rm -rf "$tmp"; exit 1; }
  if grep -q "Could not parse\|Fatal errors\|error" "$tmp/sany.log" && ! grep -q "Semantic processing of module" "$tmp/sany.log"; then cat "$tmp/sany.log"; rm -rf "$tmp"; exit 1; fi
done
rm -rf "$tmp"
mkdir -p evidence out
echo "setup ok"
