import sys; sys.path.insert(0,'/verif')
import pyrates
from harness import apiuniverse as au
def C(c): return dict(a='compile',c=c,vec=False,clr=True,node=0,var='',val=0,dec=False,inp=False)
D=dict(a='derive',c='d1',vec=True)
def UE(c,q,val): return dict(a='update_edge',c=c,node=q,val=val,var='weight',vec=False)
for calls in ([D,C('d1')],[D,UE('c1',1,51),C('d1')],[D,UE('d1',3,53),C('d1')]):
    print([c['a']+':'+c['c'] for c in calls], au.replay(dict(calls=calls)))
