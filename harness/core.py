"""Verdict bookkeeping, evidence files, known findings."""
import json, os, sys, time, hashlib

ROOT = os.path.dirname(os.path.dirname(os.path.abspath(__file__)))
REPO = os.environ.get('VERIF_REPO', '/repo')
KF_FILE = os.path.join(ROOT, 'known_findings.json')
# where evidence and replay files go: /verif unless a scratch run (tools/seeded.py --scratch) redirects them
OUT_ROOT = os.environ.get('PYRATES_VERIF_OUT') or ROOT


def load_known():
    with open(KF_FILE) as f:
        kf = json.load(f)
    return kf['findings']


class Ctx:
    def __init__(self, pid, tier, seed):
        self.pid, self.tier, self.seed = pid, tier, seed
        self.t0 = time.time()
        self.states = 0
        self.transitions = 0
        self.tlc_runs = []
        self.cases = 0
        self.nontrivial = set()
        self.traces_validated = 0
        self.replayed = 0
        self.violations = []
        self.known_hits = {}
        self.samples = []
        self.assumptions = []
        self.notes = {}
        self.rule = ''
        self.exhaustive = False
        self.skipped = []
        self.known = [k for k in load_known() if k['property'] == pid]
        self.replay_dir = os.path.join(OUT_ROOT, 'out', 'replays', pid)
        import shutil
        shutil.rmtree(self.replay_dir, ignore_errors=True)

    # ---- TLC ----
    def add_tlc(self, name, res, purpose=''):
        self.states += res['distinct']
        self.transitions += res['generated']
        self.tlc_runs.append(dict(name=name, purpose=purpose, distinct=res['distinct'], generated=res['generated'],
                                  depth=res['depth'], wall_s=round(res['wall_s'], 2), ok=res['ok'],
                                  violated=res['violated'],
                                  coverage={k: v for k, v in list(res.get('coverage', {}).items())[:40]}))

    def spec_violation(self, name, res):
        """The specification itself fails its design check (Dev = {}): machinery/spec problem."""
        self.violations.append(dict(kind='spec', cfg=name, invariant=res['violated'], trace=res['error_trace']))

    # ---- cases ----
    def case(self, key=None, nontrivial=True):
        self.cases += 1
        if nontrivial:
            k = key if key is not None else self.cases
            if not isinstance(k, str):
                k = json.dumps(k, sort_keys=True, default=str)
            self.nontrivial.add(hashlib.md5(k.encode()).hexdigest())

    def sample(self, s, limit=4):
        if len(self.samples) < limit:
            self.samples.append(s)

    def violation(self, record):
        self.violations.append(record)

    def known_hit(self, finding_id, detail=None):
        e = self.known_hits.setdefault(finding_id, dict(n=0, first=detail))
        e['n'] += 1

    def open_finding(self, finding_id):
        for k in self.known:
            if k['id'] == finding_id and k.get('status') == 'open':
                return k
        return None

    def mismatch(self, case, observed, expected, predicted=None, finding_id=None, what=''):
        """observed != expected (M).  A known finding only if a listed open finding names this deviation
        and the observation equals what the deviating model P predicts."""
        if finding_id and self.open_finding(finding_id) and (predicted is None or predicted == observed):
            self.known_hit(finding_id, dict(case=case, observed=observed, expected=expected))
            return 'known'
        self.violation(dict(kind='conformance', what=what, case=case, observed=observed, expected=expected,
                            predicted=predicted, finding=finding_id))
        return 'violation'

    # ---- finish ----
    def finish(self):
        wall = time.time() - self.t0
        os.makedirs(os.path.join(OUT_ROOT, 'evidence'), exist_ok=True)
        lines = []
        for fid, e in sorted(self.known_hits.items()):
            k = next(k for k in self.known if k['id'] == fid)
            lines.append(f"KNOWN-FINDING: property={self.pid} {fid} {k['what']} [{e['n']} case(s) this run]")
        paths = []
        if self.violations:
            os.makedirs(self.replay_dir, exist_ok=True)
            with open(os.path.join(self.replay_dir, f'{self.tier}-all.jsonl'), 'w') as f:
                for v in self.violations:
                    f.write(json.dumps(v, default=str) + '\n')
            for i, v in enumerate(self.violations[:20]):
                p = os.path.join(self.replay_dir, f'{self.tier}-{i:03d}.json')
                with open(p, 'w') as f:
                    json.dump(dict(property=self.pid, tier=self.tier, seed=self.seed, **v), f, indent=1, default=str)
                paths.append(p)
                lines.append(f'VIOLATION property={self.pid} replay={p}')
        cov = dict(states=self.states, transitions=self.transitions,
                   traces_validated_against_impl=self.traces_validated + self.replayed,
                   replayed_behaviours=self.replayed, validated_traces=self.traces_validated,
                   evaluations=self.cases, distinct_nontrivial=len(self.nontrivial), rule=self.rule,
                   samples=self.samples or [{'note': 'no sample recorded'}], exhaustive=self.exhaustive,
                   tlc_runs=self.tlc_runs, known_findings_hit={k: v['n'] for k, v in self.known_hits.items()},
                   skipped=self.skipped, checker_cmd=f'./check {self.pid} --tier {self.tier}')
        cov.update(self.notes)
        ev = dict(property_id=self.pid, tier=self.tier, seed=self.seed, level='model_checking', coverage=cov,
                  assumptions=self.assumptions, wall_s=round(wall, 2), violations=len(self.violations))
        with open(os.path.join(OUT_ROOT, 'evidence', f'{self.pid}.json'), 'w') as f:
            json.dump(ev, f, indent=1, default=str)
        for l in lines:
            print(l)
        print(f'[{self.pid}] tier={self.tier} seed={self.seed} tlc_states={self.states} cases={self.cases} '
              f'replayed={self.replayed} traces={self.traces_validated} violations={len(self.violations)} '
              f'known={sum(v["n"] for v in self.known_hits.values())} wall={wall:.1f}s')
        sys.stdout.flush()
        return 1 if self.violations else 0
