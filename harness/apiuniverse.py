"""Realises the fixed universe of spec/Api.tla with real PyRates objects and replays call histories on it."""
import warnings

OPS = {'o1': dict(name='A', eqv=1, k=2, x0=10), 'o2': dict(name='A', eqv=2, k=3, x0=20), 'o3': dict(name='B', eqv=1, k=5, x0=30)}
NT_OP = {'t1': 'o1', 't2': 'o2', 't3': 'o3', 't4': 'o1', 't6': 'o2'}
NT_VAR = {'t1': {}, 't2': {}, 't3': {'k': 7.0}, 't4': {'x': 15.0}, 't6': {'k': 6.0}}
CIRC_NODES = {'c1': [('a', 't1'), ('b', 't1'), ('c', 't4')], 'c2': [('a', 't6'), ('b', 't2')], 'c3': [('a', 't3'), ('b', 't1')]}
EDGE_GAIN = {'c1': 3, 'c2': 1, 'c3': 6, 'cy': 1, 'd1': 3, 'd2': 1}      # edge templates of c1 / c3: operators named 'E' with different gains
INP_VAL = {'c1': 7.0, 'c2': 11.0, 'c3': 13.0, 'cy': 17.0, 'd1': 19.0, 'd2': 23.0}
# d1 = c1.update_template(name='d1'): a derived circuit that references c1's node templates and edges
CIRC_EDGES = {'c1': [(1, 2, 4.0), (3, 1, 6.0)], 'c2': [], 'c3': [(1, 2, 8.0)]}
VAR = {'k': 'k', 'x0': 'x'}
# the circuit "cy" of Api.tla lives in a YAML file (operator Y: x' = -2*k*x + u, k = 4, x(0) = 50)
OPS['o4'] = dict(name='Y', eqv=2, k=4, x0=50)
NT_OP['t5'] = 'o4'
CIRC_NODES['cy'] = [('a', 't5')]
CIRC_EDGES['cy'] = []
CIRC_NODES['d1'] = list(CIRC_NODES['c1'])
CIRC_EDGES['d1'] = list(CIRC_EDGES['c1'])
CIRC_NODES['d2'] = list(CIRC_NODES['c2'])       # d2 = c2.update_template(name='d2', edges=[a -> b])
CIRC_EDGES['d2'] = [(1, 2, 2.0)]
CY_YAML = """
Y:
  base: OperatorTemplate
  equations: "x' = -2*k*x + u"
  variables:
    x: output(50.0)
    k: 4.0
    u: input(0.0)
t5:
  base: NodeTemplate
  operators:
    - Y
cy:
  base: CircuitTemplate
  nodes:
    a: t5
"""


def unneg(obs):
    return sorted((x0, -d + 0.0, tuple(sorted((sx0, -sd + 0.0, -w + 0.0) for sx0, sd, w in inw)), -cst + 0.0) for x0, d, inw, cst in obs)


def negate(func):
    """the user decorator of Compile(dec = TRUE): the decorated vector field is the negated one"""
    def wrapped(*a, **k):
        return -func(*a, **k)
    return wrapped


class Universe:
    def __init__(self):
        from pyrates import OperatorTemplate, NodeTemplate, CircuitTemplate
        warnings.filterwarnings('ignore')
        self.ops = {}
        for oid, o in OPS.items():
            if oid == 'o4':
                continue            # defined in the YAML file only
            eq = "x' = -k*x + u" if o['eqv'] == 1 else "x' = -2*k*x + u"
            kdecl = float(o['k'])
            if oid == 'o2':      # the same constant, declared in the explicit dictionary form
                kdecl = dict(vtype='constant', dtype='float', shape=(1,), value=float(o['k']))
            self.ops[oid] = OperatorTemplate(o['name'], equations=[eq],
                                             variables={'x': f"output({float(o['x0'])})", 'k': kdecl, 'u': 'input(0.0)'})
        self.nts = {}
        for t, oid in NT_OP.items():
            if t == 't5':
                continue
            v = NT_VAR[t]
            self.nts[t] = NodeTemplate(t, operators={self.ops[oid]: dict(v)} if v else [self.ops[oid]])
        self.circs = {}
        import os
        os.makedirs('ymodels', exist_ok=True)
        with open('ymodels/cyfile.yaml', 'w') as f:
            f.write(CY_YAML)
        for c, nodes in CIRC_NODES.items():
            if c in ('cy', 'd1', 'd2'):
                continue
            nd = {n: self.nts[t] for n, t in nodes}
            ed = []
            from pyrates import EdgeTemplate
            etmp = EdgeTemplate('et_' + c, operators=[OperatorTemplate('E', equations=[f"m_out = {float(EDGE_GAIN[c])}*m_in"],
                                                                        variables={'m_out': 'output(0.0)', 'm_in': 'input(0.0)'})])
            self.etmps = getattr(self, 'etmps', {}); self.etmps[c] = etmp
            for s, t, w in CIRC_EDGES[c]:
                sn, tn = nodes[s - 1], nodes[t - 1]
                ed.append((f"{sn[0]}/{OPS[NT_OP[sn[1]]]['name']}/x", f"{tn[0]}/{OPS[NT_OP[tn[1]]]['name']}/u", etmp, {'weight': w}))
            self.circs[c] = CircuitTemplate(c, nodes=nd, edges=ed)
        self.handles = []

    def opname(self, c, i):
        return OPS[NT_OP[CIRC_NODES[c][i - 1][1]]]['name']

    # ---- observable of a compiled function: the linear field as canonical multiset of units
    @staticmethod
    def observe(func, args, names=None, svm=None):
        import numpy as np
        y0 = np.asarray(args[1], dtype='float64').ravel().copy()
        n = len(y0)
        const = np.asarray(func(0, np.zeros(n), *args[2:]), dtype='float64').ravel()[:n].copy()
        A = np.zeros((n, n))
        for j in range(n):
            e = np.zeros(n); e[j] = 1.0
            A[:, j] = np.asarray(func(0, e, *args[2:]), dtype='float64').ravel()[:n] - const
        units = []
        for i in range(n):
            inw = sorted((float(y0[j]), float(A[j, j]), float(A[i, j])) for j in range(n) if j != i and A[i, j] != 0.0)
            units.append((float(y0[i]), float(A[i, i]), tuple(inw), float(const[i])))
        return sorted(units)

    @staticmethod
    def canon(units):
        """canonical form of a list of spec units [n, x0, k, eqv, inw]"""
        out = []
        for u in units:
            inw = sorted((float(units[e['s'] - 1]['x0']), float(-units[e['s'] - 1]['eqv'] * units[e['s'] - 1]['k']), float(e['w']))
                         for e in (u.get('inw') or []) if e['s'] != 0)
            out.append((float(u['x0']), float(-u['eqv'] * u['k']), tuple(inw), float(u.get('ext', 0))))
        return sorted(out)

    def var_path(self, call):
        cid, sel = call['c'], call['node']
        if sel == 0:
            return f"all/{self.opname(cid, 1)}/{VAR[call['var']]}"
        return f"{CIRC_NODES[cid][sel - 1][0]}/{self.opname(cid, sel)}/{VAR[call['var']]}"

    @staticmethod
    def override_value(call, base):
        """OverrideVal of Api.tla: scalar base (or 0); array base + i per addressed node (the last one 0)"""
        import numpy as np
        arr = call.get('arr', call['vec']) if call['a'] == 'compile_nv' else call['vec']
        zero = bool(call.get('zero'))
        if arr:
            n = len(CIRC_NODES[call['c']])
            vals = [base + i for i in range(1, n + 1)]
            if zero:
                vals[-1] = 0.0
            return np.array(vals)
        return 0.0 if zero else base

    def do(self, call):
        import numpy as np, copy
        a = call['a']
        c = self.circs.get(call['c'])
        if a in ('compile', 'compile_nv'):
            kw = {}
            if a == 'compile_nv':
                kw['node_values'] = {self.var_path(call): self.override_value(call, float(call['val']))}
            if call.get('dec'):
                kw['decorator'] = negate
            if call.get('inp'):
                import numpy as np
                kw['inputs'] = {f"{CIRC_NODES[call['c']][0][0]}/{self.opname(call['c'], 1)}/u": np.full(8, INP_VAL[call['c']])}
            func, args, names, svm = c.get_run_func('vf', 1e-3, vectorize=call['vec'], clear=call['clr'], in_place=False,
                                                    verbose=False, float_precision='float64', **kw)
            obs = self.observe(func, args)
            if call.get('dec'):      # report the field of the model itself: undo the user's negation
                obs = unneg(obs)
            if not call['clr'] and len(self.handles) < 2:
                self.handles.append((func, args, bool(call.get('dec'))))
            return obs
        if a == 'update_var':
            c.update_var(node_vars={self.var_path(call): self.override_value(call, float(call['val']))})
            return None
        if a == 'update_edge':
            cid = call['c']
            s, t, w = CIRC_EDGES[cid][call['node'] - 1]
            sn, tn = CIRC_NODES[cid][s - 1], CIRC_NODES[cid][t - 1]
            c.update_var(edge_vars=[(f"{sn[0]}/{self.opname(cid, s)}/x", f"{tn[0]}/{self.opname(cid, t)}/u", {'weight': float(call['val'])})])
            return None
        if a == 'get_nodes':
            c.get_nodes(['all']); c.get_nodes(['a']); return None
        if a == 'collect_edges':
            c.collect_edges(); c.get_edges('all', 'all'); return None
        if a == 'to_yaml':
            c.to_yaml(f"yaml_{call['c']}/{call['c']}"); return None
        if a == 'deepcopy':
            copy.deepcopy(c); return None
        if a == 'update_template_copy':
            c.update_template(name='copy_of_' + call['c']); return None
        if a == 'getitem':
            c['a']; c.get_node_template('a'); return None
        if a == 'clear_frontend_caches':
            from pyrates import clear_frontend_caches
            clear_frontend_caches(); return None
        if a == 'derive':
            if call.get('vec'):      # derive with an additional edge b -> c (same edge template as c1's edges)
                self.circs['d1'] = self.circs['c1'].update_template(name='d1', edges=[('b/A/x', 'c/A/u', self.etmps['c1'], {'weight': 2.0})])
                CIRC_EDGES['d1'] = list(CIRC_EDGES['c1']) + [(2, 3, 2.0)]
            else:
                self.circs['d1'] = self.circs['c1'].update_template(name='d1')
                CIRC_EDGES['d1'] = list(CIRC_EDGES['c1'])
            return None
        if a == 'derive2':
            self.circs['d2'] = self.circs['c2'].update_template(name='d2', edges=[('a/A/x', 'b/A/u', self.etmps['c2'], {'weight': 2.0})])
            return None
        if a == 'from_yaml':
            from pyrates import CircuitTemplate
            self.circs['cy'] = CircuitTemplate.from_yaml('ymodels/cyfile/cy')
            return None
        if a == 'clear_model':
            from pyrates import clear
            clear(c); return None
        if a == 'call_earlier':
            func, args, dec = self.handles[call['node'] - 1]
            return unneg(self.observe(func, args)) if dec else self.observe(func, args)
        raise ValueError(a)


def replay(beh):
    """Runs the whole history in this (forked) process; returns the observable of the last call or the exception."""
    import traceback
    u = Universe()
    obs = None
    last = len(beh['calls']) - 1
    earlier = []
    for k, call in enumerate(beh['calls']):
        try:
            obs = u.do(call)
        except Exception as e:
            if k == last:
                return dict(exc=type(e).__name__, msg=str(e)[:300], at=k, tb=traceback.format_exc()[-700:], earlier=earlier)
            earlier.append(dict(at=k, exc=type(e).__name__))      # a user would carry on after a failed call
    return dict(units=obs, earlier=earlier)
