"""Run TLC and decode what it prints.  Standard library only."""
import json, os, re, shutil, subprocess, tempfile, time

JAR = '/opt/veriftools/tla/tla2tools.jar'
SPEC_DIR = os.path.join(os.path.dirname(os.path.dirname(os.path.abspath(__file__))), 'spec')


class TLCError(Exception):
    pass


def _decode_tla_string(s):
    # TLC prints strings with \" and \\ escapes, same as JSON
    return json.loads('"' + s + '"')


_EXPORT_RE = re.compile(r'^<<"([A-Z_]+)", "(.*)">>$')
_EXPORT_ANY = re.compile(r'<<"([A-Z_]+)", "((?:[^"\\]|\\.)*)">>')
_TUPLE_RE = re.compile(r'^<<"([A-Z_]+)", (.*)>>$')


def run_tlc(module, cfg_text, workers=1, simulate=None, depth=None, seed=None, timeout=3600,
            env=None, coverage=False, extra=None, spec_dirs=None, dfid=None, keep=False, defs=None, mc_extends=()):
    """Runs TLC on spec/<module>.tla with the given cfg text.

    Returns dict(ok, violated, exports {TAG: [decoded json]}, tuples {TAG: [raw str]},
                 generated, distinct, depth, wall_s, stdout, coverage)
    """
    work = tempfile.mkdtemp(prefix='pyrates-verif-tlc-')
    try:
        # copy all spec modules (flat) so that EXTENDS/INSTANCE resolve
        for d in ([SPEC_DIR, os.path.join(SPEC_DIR, 'trace')] + list(spec_dirs or [])):
            for f in os.listdir(d):
                if f.endswith('.tla'):
                    shutil.copy(os.path.join(d, f), work)
        if defs:
            # wrapper module: constants that a cfg file cannot express (negative numbers, records, ...)
            base = module
            module = 'MC_' + base
            with open(os.path.join(work, module + '.tla'), 'w') as f:
                f.write(f'---- MODULE {module} ----\nEXTENDS ' + ', '.join([base] + list(mc_extends)) + '\n')
                for k, v in defs.items():
                    f.write(f'MC_{k} == {v}\n')
                f.write('====\n')
            sub = ''.join(f'  {k} <- MC_{k}\n' for k in defs)
            if 'CONSTANTS\n' in cfg_text:
                cfg_text = cfg_text.replace('CONSTANTS\n', 'CONSTANTS\n' + sub, 1)
            else:
                cfg_text = 'CONSTANTS\n' + sub + cfg_text
        cfg = os.path.join(work, module + '.cfg')
        with open(cfg, 'w') as f:
            f.write(cfg_text)
        cmd = ['java', '-XX:+UseParallelGC', '-Xmx8g', '-cp', JAR]
        cmd += ['tlc2.TLC', '-workers', str(workers), '-metadir', os.path.join(work, 'meta'),
                '-noGenerateSpecTE', '-config', cfg]
        if coverage:
            cmd += ['-coverage', '1']
        if simulate is not None:
            cmd += ['-simulate', simulate]
        if depth is not None:
            cmd += ['-depth', str(depth)]
        if seed is not None:
            cmd += ['-seed', str(seed)]
        if dfid is not None:
            cmd += ['-dfid', str(dfid)]
        if extra:
            cmd += list(extra)
        cmd.append(os.path.join(work, module + '.tla'))
        e = dict(os.environ)
        e.pop('JAVA_TOOL_OPTIONS', None)
        if env:
            e.update(env)
        t0 = time.time()
        try:
            p = subprocess.run(cmd, cwd=work, env=e, stdout=subprocess.PIPE, stderr=subprocess.STDOUT,
                               timeout=timeout, text=True)
        except subprocess.TimeoutExpired as ex:
            raise TLCError(f'TLC timed out after {timeout}s on {module}') from ex
        wall = time.time() - t0
        out = p.stdout
        res = dict(ok=False, violated=None, exports={}, tuples={}, generated=0, distinct=0, depth=0,
                   wall_s=wall, stdout=out, returncode=p.returncode, coverage={}, error_trace=None)
        for line in out.splitlines():
            m = _EXPORT_RE.match(line)
            if m:
                try:
                    res['exports'].setdefault(m.group(1), []).append(json.loads(_decode_tla_string(m.group(2))))
                    continue
                except Exception:
                    pass
            if '<<"' in line and '">>' in line and not _TUPLE_RE.match(line):
                # several workers may print on one line
                found = False
                for m2 in _EXPORT_ANY.finditer(line):
                    try:
                        res['exports'].setdefault(m2.group(1), []).append(json.loads(_decode_tla_string(m2.group(2))))
                        found = True
                    except Exception:
                        pass
                if found:
                    continue
            m = _TUPLE_RE.match(line)
            if m:
                res['tuples'].setdefault(m.group(1), []).append(m.group(2))
                continue
            m = re.match(r'^(\d+) states generated, (\d+) distinct states found', line)
            if m:
                res['generated'] = int(m.group(1)); res['distinct'] = int(m.group(2))
            m = re.match(r'^The depth of the complete state graph search is (\d+)', line)
            if m:
                res['depth'] = int(m.group(1))
            m = re.match(r'^Error: Invariant (\S+) is violated', line)
            if m:
                res['violated'] = m.group(1)
            m = re.match(r'^Error: Action property (\S+) is violated', line)
            if m:
                res['violated'] = m.group(1)
            m = re.match(r'^Error: Temporal properties were violated', line)
            if m:
                res['violated'] = 'temporal'
            if coverage:
                m = re.match(r'^<(\w+) line (\d+), col \d+ to line \d+, col \d+ of module (\w+)>: (\d+):(\d+)', line)
                if m:
                    res['coverage'][m.group(1)] = res['coverage'].get(m.group(1), 0) + int(m.group(5))
        if res['violated']:
            i = out.find('Error: ')
            res['error_trace'] = out[i:i + 6000]
        completed = ('Model checking completed. No error has been found.' in out) or \
                    (simulate is not None and p.returncode == 0)
        # with several workers TLC prints exports in a run-dependent order: fix the order so that seeded sampling downstream
        # selects the same cases in every run
        for tag in res['exports']:
            res['exports'][tag].sort(key=lambda r: json.dumps(r, sort_keys=True))
        res['ok'] = completed and res['violated'] is None
        if not res['ok'] and res['violated'] is None:
            # machinery failure (parse error, evaluation error, ...)
            i = out.find('Error')
            raise TLCError(f'TLC failed on {module} (rc={p.returncode}):\n' + out[max(0, i - 200):i + 3000])
        return res
    finally:
        if not keep:
            shutil.rmtree(work, ignore_errors=True)


def cfg(constants=None, init='Init', next='Next', invariants=(), properties=(), constraints=(),
        view=None, deadlock=False, spec=None, postcondition=None, action_constraints=(), symmetry=None):
    lines = []
    if spec:
        lines.append(f'SPECIFICATION {spec}')
    else:
        lines += [f'INIT {init}', f'NEXT {next}']
    if constants:
        lines.append('CONSTANTS')
        for k, v in constants.items():
            lines.append(f'  {k} = {tla_value(v)}')
    for i in invariants:
        lines.append(f'INVARIANT {i}')
    for i in properties:
        lines.append(f'PROPERTY {i}')
    for i in constraints:
        lines.append(f'CONSTRAINT {i}')
    for i in action_constraints:
        lines.append(f'ACTION_CONSTRAINT {i}')
    if view:
        lines.append(f'VIEW {view}')
    if postcondition:
        lines.append(f'POSTCONDITION {postcondition}')
    lines.append('CHECK_DEADLOCK ' + ('TRUE' if deadlock else 'FALSE'))
    return '\n'.join(lines) + '\n'


def tla_value(v):
    if isinstance(v, bool):
        return 'TRUE' if v else 'FALSE'
    if isinstance(v, int):
        if v < 0:
            raise ValueError('cfg files reject negative literals; define them in the module')
        return str(v)
    if isinstance(v, str):
        return json.dumps(v)
    if isinstance(v, (set, frozenset)):
        return '{' + ', '.join(tla_value(x) for x in sorted(v, key=repr)) + '}'
    if isinstance(v, (list, tuple)):
        return '<<' + ', '.join(tla_value(x) for x in v) + '>>'
    if isinstance(v, Raw):
        return v.s
    raise TypeError(type(v))


class Raw:
    def __init__(self, s):
        self.s = s
