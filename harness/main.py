import argparse, importlib, json, os, sys, traceback

REPO = os.environ.get('VERIF_REPO', '/repo')
sys.path.insert(0, REPO)   # the code under test is always /repo's working tree


def main():
    ap = argparse.ArgumentParser()
    ap.add_argument('pid')
    ap.add_argument('--tier', default=os.environ.get('VERIF_TIER', 'quick'), choices=['quick', 'thorough'])
    ap.add_argument('--replay')
    ap.add_argument('--selftest', action='store_true')
    a = ap.parse_args()
    seed = int(os.environ.get('VERIF_SEED', '0'))
    try:
        import pyrates  # noqa: imported once here; every case runs in a fork of this process
        mod = importlib.import_module(f'harness.props.{a.pid.lower()}')
        from .core import Ctx
        ctx = Ctx(a.pid, a.tier, seed)
        if a.replay:
            with open(a.replay) as f:
                rec = json.load(f)
            rc = mod.replay(ctx, rec)
            sys.exit(rc)
        if a.selftest:
            sys.exit(mod.selftest(ctx))
        mod.run(ctx)
        sys.exit(ctx.finish())
    except SystemExit:
        raise
    except BaseException:
        traceback.print_exc()
        print(f'MACHINERY-FAILURE property={a.pid}', file=sys.stderr)
        sys.exit(2)


if __name__ == '__main__':
    main()
