"""Regenerates /verif/MANIFEST.json from the table below (python3 harness/mkmanifest.py)."""
import json, os
ROOT = os.path.dirname(os.path.dirname(os.path.abspath(__file__)))

CLAIMED = {
 'C19': dict(
    text='TLC checks spec/DDEHistory.tla exhaustively within small bounds (all update/mutate histories up to 5-7 records, '
         'growable and bounded buffers, capacity 1-3 so several growth events are crossed): query = piecewise-linear '
         'interpolant with clamping, rows are copies and survive growth, a bounded history refuses. Every exported '
         'behaviour is replayed on the real class (dtype/shape/time-scale variants, every query point, 3 query orders) '
         'and randomly driven logs of the real class, including runs across the shipped capacity 1024/2048, are '
         'validated by TLC against the same actions (trace validation). Exact rational oracle.',
    note='Trusts: TLC, the JSON decoding of TLC output, float exactness on dyadic data; _INITIAL_CAPACITY is patched '
         'by the harness for the small-capacity runs; bounds are small (<= 7 records exhaustive, <= 3100 sampled).',
    technique='TLA+ spec + TLC exhaustive check, behaviour replay into DDEHistory, TLC trace validation of recorded logs',
    ref='6/C19'),

 'C03': dict(
    text='spec/Solver.tla models run(): the _solve_euler/_solve_heun loop as a pc-level state machine (store, RHS call(s) with their '
         'side effects, advance), the time axis, storage cadence and cutoff; TLC checks that P refines the textbook Euler/Heun '
         'iterates (layer M) for every (model, T, dt, dts, cutoff, solver, vectorize) case within the bounds, then every case is '
         'run through CircuitTemplate.run in several exact time-scale / precision / cutoff-placement variants and index and rows '
         'are compared with ==. Adaptive solver: polynomial chain models with closed-form solution (tolerance). Code -> spec: every '
         'right-hand-side call of real runs is logged through the public decorator= keyword (step counter, state passed in, slope '
         'returned, returned rows) and TLC validates each log against the actions of Solver.tla (spec/trace/TraceSolver.tla); a '
         'corrupted log must be rejected at the corrupted event.',
    note='Exact integer/dyadic regime only; bounds: <= 12 steps, store <= 3, 5 linear models; T a multiple of dts (else known '
         'finding D21, pinned); accuracy clause for adaptive solvers only on polynomial models.',
    technique='TLA+ solver-loop spec, TLC exhaustive over configuration lattice, exact replay through run(), TLC trace validation of recorded RHS calls',
    ref='6/C03'),
 'C09': dict(
    text='spec/Solver.tla delay pass + ring buffers (which source variables get a buffer, which slot an edge reads, roll per RHS '
         'call) checked by TLC against the delayed recurrence for every ordered edge list (<= 2/3 edges, lags 0,2,3,4, two '
         'sources, two targets, vectorize on/off, merged or separate node kinds, node-and-edge and Population/Connectivity form); '
         'every case replayed through run(solver=euler/heun) with exact comparison, delay jitter +-dt/4 and time rescaling; the '
         'right-hand-side calls of real runs (logged through decorator=) are validated by TLC against the per-call ring-buffer '
         'actions of Solver.tla (spec/trace/TraceSolver.tla).',
    note='Known findings D06, D07 are matched against the exact prediction of the deviating model; D36 pinned and excluded by '
         'constraint; population form restricted to one lag per source variable (D37/D38) and >= 2 target units (D27).',
    technique='TLA+ ring-buffer/delay-pass spec, TLC exhaustive over edge lists, exact replay through run(), TLC trace validation of recorded RHS calls',
    ref='6/C09'),

 'C08': dict(
    text='spec/Solver.tla ExtAt (sample k is used during step k, frozen over both Heun stages) and Interp2 (piecewise-linear '
         'interpolation on linspace(0,T,N) with clamping, on the half-knot lattice) with TLC-checked invariants; every case '
         '(input on one node / different inputs on merged nodes / broadcast, with and without converging edges, euler and heun, '
         'vectorize on/off, sampling 1-2) is run with the input given as (N,), (N,1), (N,n) and broadcast arrays and compared '
         'exactly; the adaptive form is checked on the function returned by get_run_func at every knot, midpoint and outside [0,T]. '
         'Routing of an (N,n) input addressed by a wildcard: spec/Paths.tla RoutingM (column i drives the i-th resolved node) vs '
         'RoutingP (_add_input edges with source_idx, _group_edges index lists paired positionally), TLC-checked over node kinds '
         'that share the target operator x declaration orders x hierarchy x every wildcard pattern; every case is run.',
    note='Default backend only (other backends: C02); hierarchy levels of the input node are exercised in C06/C17 only; exact regime.',
    technique='TLA+ spec of input lookup/interpolation, TLC enumeration, exact replay through run() and get_run_func()',
    ref='6/C08'),

 'C18': dict(
    text='spec/Auto.tla: the PAR-slot allocation loop as a state machine (TLC: all parameter counts 0..40, LoopInv + the C18 '
         'predicates on the artefacts the model derives) and the C18 requirements as predicates over an artefact record. '
         'Every TLC-exported program (parameters per node x order of first use x one/two nodes sharing the operator x '
         'defaults/overrides x scenario selection) is exported through get_run_func(backend=fortran, auto=True); the .f90 and '
         'every c.<scenario> file are parsed into artefact records, FUNC and STPNT are called through f2py, and TLC evaluates '
         'the predicates on every record (trace validation): slots injective, avoid 11..14, follow declaration order, STPNT / '
         'parnames / call / signature / DFDP agree, NPAR = max slot, NDIM, exported field = model field.',
    note='Parameters are identified by pairwise distinct prime values; linear models; <= 20 declared parameters per node, 2 nodes; '
         'the relative slot of edge weights and undriven inputs is not constrained (the property does not say).',
    technique='TLA+ slot-loop spec (TLC exhaustive) + TLC trace validation of artefacts parsed from generated files and f2py calls',
    ref='6/C18'),

 'C13': dict(
    text='spec/Api.tla: PyRates as a state machine over public API calls with the template heap (shared, mutable variation '
         'dictionaries), OperatorTemplate.cache (keyed by name), node_cache (keyed by structure hash) and the state a template '
         'remembers from its first compile. TLC checks HistoryIndependent for every history within the bound over a universe '
         'containing every collision C13 names (Dev={}), and each named deviation is shown to violate it. One behaviour per '
         'distinct abstract state is replayed in a single fresh process; the linear field and initial state of the returned '
         'function are compared exactly with the meaning of the template (layer M), then with the deviating model (known findings). '
         'The alphabet includes from_yaml of a circuit that lives in a YAML file (template_cache by path), pyrates.clear(model), '
         'clear_frontend_caches and compiles with a user decorator (compiled-module cache); the YAML histories are explored to depth 6 '
         'with one behaviour per abstract state and sequence of (call kind, clear flag) - path coverage; action properties '
         'LoadYieldsFile and ClearModelClears.',
    note='Known findings D08, D23, D40 matched against exact predictions; D09 class excluded by constraint with pinned reproducers; '
         'default backend; universe of 4 operators / 6 node templates / 6 circuits (incl. a YAML-loaded and two derived ones); '
         'histories <= 2 exhaustive (quick: restricted flag combinations, two-call histories sampled under a cap) + random '
         'histories of depth 4 (quick) / 6 (thorough) + the targeted deep explorations (YAML circuit depth 6, derived circuit depth 4).',
    technique='TLA+ API-level state machine with caches, TLC exhaustive over call histories, replay into one process per history',
    ref='6/C13'),
 'C14': dict(
    text='spec/Api.tla action property ReadOnlyPreservesMeaning over every step of every history of read-only / copy-making '
         'calls (get_nodes, get_edges/collect_edges, __getitem__/get_node_template, to_yaml, deepcopy, update_template copy, '
         'get_run_func(in_place=False) with and without node_values); deviations (aliasing writes) are shown to violate it. '
         'Behaviours replayed on real templates sharing operator and node objects; plus nested-circuit scenarios (collect_edges, '
         'to_yaml, repeated run(in_place=False)).',
    note='Known findings D08 / D40 (remembered state) matched against the deviating model; operator-level derivation is covered in C15.',
    technique='TLA+ action property over API histories (TLC), replay into real template objects',
    ref='6/C14'),
 'C07': dict(
    text='spec/Api.tla action properties OnlyAddressedChange / EdgeOverrideOnlyItsEdge on every step: update_var (single node, '
         'all, scalar, per-node array; constants and initial values), update_var(edge_vars), node_values, over templates in '
         'which NodeTemplate/OperatorTemplate objects are shared between nodes and circuits; every distinct abstract state '
         'reached by a compile is replayed and the compiled arguments/initial state compared exactly with Meaning.',
    note='Known findings D08 / D40; constructor overrides are part of the fixed universe; add_edges_from_matrix covered in C16.',
    technique='TLA+ action property over override histories (TLC), replay into real template objects',
    ref='6/C07'),

 'C01': dict(
    text='spec/Wiring.tla: layer M Denote(program) - the affine vector field the user wrote (bag-of-contributions semantics for '
         'inputs, declared default when empty) over programs built from an operator library (two inputs per operator, same-node '
         'operator output named like an input, second state variable, edge template), layer P the compile pipeline (per-source '
         'collection, accumulated weight matrix, multi-source sum term); TLC checks FieldCorrect (P refines M) for every program '
         'within the bounds and that each historic deviation violates it. Every selected program is compiled (vectorize on/off, '
         '0-2 hierarchy levels, reversed declaration order, four spellings of the equation) and the field recovered by probing '
         'the returned function is compared exactly with Denote; layout positions from distinct initial values.',
    note='Affine integer library: agreement on a basis + origin is agreement for all y; 1-2 nodes x <= 2 edges exhaustive (sampled in '
         'quick), 3 nodes in thorough; known findings D42 (vectorised non-zero input defaults) and D43 excluded by class, pinned.',
    technique='TLA+ denotational spec + pipeline refinement (TLC), exhaustive program enumeration, exact field probing of get_run_func',
    ref='6/C01'),
 'C04': dict(
    text='Same Denote (spec/Wiring.tla) over C04Progs: populations of 4-12 identical / alternating nodes with permutation coupling '
         '(identity, shifts, permuted interior with fixed end points, pair swaps), dense and sparse block patterns, plus all '
         'two-node same-kind programs; each compiled with vectorize=True and False, matrix_sparseness 0.1/0.5(/0.02) and weights '
         'scaled by 2^-40; both fields must equal Denote exactly (hence each other).',
    note='Delayed edges with/without vectorisation are compared as trajectories in C09 (Solver.tla); D42 class excluded from vectorised runs.',
    technique='TLA+ denotational spec (TLC enumeration of connection patterns), exact field probing in both vectorisation modes',
    ref='6/C04'),
 'C16': dict(
    text='spec/WiringCases!Expand maps a PopulationTemplate/Connectivity circuit to nodes and one scalar edge per non-zero entry; '
         'Denote of the expansion (Wiring.tla) is the meaning. TLC enumerates 1-3 populations of 1-4 units, recurrent / forward / '
         'converging connections, non-square signed sparse matrices, scalar weights, per-unit parameters, coupling edges (pre, '
         'chained operators declared against dependency order, pre-minus-post per (target, source) pair); the population circuit, '
         'the add_edges_from_matrix circuit and the edge-by-edge circuit are compiled and compared exactly with the meaning; '
         'delayed Connectivity trajectories via Solver.tla.',
    note='Input defaults 0; D27 (single-unit populations, loud) matched by class; dynamic (stateful) coupling edges and gamma-kernel '
         'matrix delays are covered in C11 only.',
    technique='TLA+ expansion operator + denotational spec (TLC), exact field probing of three frontend forms',
    ref='6/C16'),

 'C06': dict(
    text='spec/Paths.tla: layer M Resolve(pattern, var) (declaration-order traversal, level-wise matching with all wildcards, '
         'variable ownership) and Columns(request) (labels of dict / list outputs with the node each must carry); layer P the '
         'recursion of get_nodes, the variable filter and the label construction; TLC checks ColumnCarriesItsLabel (P = M) for '
         'every circuit (3-4 nodes, two kinds, 3 declaration orders, depth 0-2), every pattern and request form. Each selected '
         'case is run (a quarter of them after a previous in-place run with the other vectorisation setting) and every column is '
         'identified by its first two rows (distinct initial values, exact Euler step).',
    note='Mixed single/multi-key dict requests are known finding D39 (pinned); population outputs are exercised by the C09/C16 runs; '
         'edges/inputs/update_var use the same resolution and are exercised in C01/C08/C07.',
    technique='TLA+ path-resolution spec (TLC exhaustive over circuits x requests), exact identification of DataFrame columns',
    ref='6/C06'),
 'C17': dict(
    text='spec/Grid.tla: the rows a grid denotes (zip / cartesian product), injective labels, and LabelKeepsItsRow (the values '
         'simulated under a label are those the table shows for it) checked by TLC for pairwise, permuted and re-indexed table '
         'grids; every case is run through grid_search (node parameters on one / two / all nodes, edge weights, one or two keys, '
         'extrinsic input, vectorize on/off, a base model whose edges are listed against node order) and each result column is '
         'compared exactly with a separate run of the adapted model; the returned table is compared with the specification.',
    note='Oracle for the time series is a separate run() (differential), which C03 binds to Solver.tla; linear integer models, Euler.',
    technique='TLA+ grid/label spec (TLC), replay through grid_search with exact comparison against separate runs',
    ref='6/C17'),

 'C20': dict(
    text='spec/Guards.tla: MustRaise / MustWarn (layer M) over the request record [backend, call, solver, vectorize, delay kind, '
         'sparse, defect] and the guard sequence of the code as a pc-level state machine (layer P); TLC checks NoUnsupportedReturn and '
         'NoSilentDrop over the full finite matrix and that dropping a guard (three deviations) violates them. Every request of the '
         'matrix (default/torch/jax exhaustively, Fortran cells that decide before compilation plus a few compiled ones; all in thorough) '
         'and every malformed variant of a valid model (reserved name, undeclared variable, value for a missing operator incl. via all/, '
         'missing edge endpoints, missing outputs, two outputs, cyclic operator graph, inputs / updates / node values addressed to '
         'missing targets) is executed; outcome returned / raised / warned compared with MustRaise / MustWarn.',
    note='Exhaustive over the modelled matrix; a raise where none is required is recorded as drift only; julia/matlab not installed.',
    technique='TLA+ guard state machine (TLC exhaustive over the support matrix), execution of every request on the real code',
    ref='6/C20'),

 'C12': dict(
    text='spec/Expr.tla defines expression trees, exact rational evaluation and the symbolic derivative D (sum, product, quotient, '
         'integer power, chain rule with the table for sin/cos/exp/tanh/sigmoid/log; delayed leaves as independent symbols); '
         'spec/Jacobian.tla builds, for every model of ModelSet, J0 and one matrix per distinct delay with the column = position in '
         'the state vector, and TLC checks D against exact symmetric difference quotients on the polynomial parts. Every model is '
         'compiled with get_run_func and get_jacobian_func (dense/sparse, delays as parameters or literals, incl. two delays that '
         'agree to three digits) and the matrices are compared at three points with the evaluated trees and with central '
         'differences of the generated vector field.',
    note='Elementary functions evaluated with their NumPy meaning in the harness (tolerances 1e-9 / 1e-5); scalar models, default backend.',
    technique='TLA+ symbolic differentiation spec (TLC-checked on polynomial parts), replay into get_jacobian_func vs trees and differences',
    ref='6/C12'),

 'C10': dict(
    text='(a) spec/Solver.tla with the DDEHistory object in the solver loop (update after every step, query at step*dt - tau, initial '
         'state before the start): TLC checks that P refines the delayed recurrence with constant pre-history and every case (1-3-step '
         'delays, one or two nodes, euler/heun, sampling 1-3, vectorize on/off) is run and compared exactly; (b) update/query logs of '
         'the real DDEHistory object recorded through the decorator keyword during these runs are validated by TLC against '
         'DDEHistory.tla, and the right-hand-side calls themselves (step counter, state, slope) against Solver.tla (TraceSolver.tla); (c) models with past() leaves from Jacobian.tla are compiled (fixed-step and adaptive, past() and x(t-tau) '
         'notation, parameter and literal delays) and called with a recording hist: the value must equal the tree evaluated with '
         'component x of hist(t - tau) and the query times must be exactly t - tau in time units; (d) adaptive run vs the exact '
         'method-of-steps solution on [0, 3 tau).',
    note='(d) is tolerance-limited (3.5 %): the history is linearly interpolated between accepted steps; D46 (spelling of past terms) and '
         'D49 (per-node delays of merged nodes) are pinned; default backend.',
    technique='TLA+ solver/history spec (TLC), exact replay, TLC trace validation of recorded history logs, recording hist callable',
    ref='6/C10'),

 'C11': dict(
    text='spec/Gamma.tla: layer M is the explicitly written augmented ODE (own chain of n = round((d/s)^2) stages of rate n/d per edge, '
         'dde_approx = n without spread) and its integer Euler iterates; layer P the grouping of slots into shared chains; TLC checks '
         'EachEdgeOwnKernel and MeanDelayIsD and that two historic deviations violate them. Every ordered edge list (<= 2 edges, all '
         '11 kernels incl. equal order / different rate, equal kernel from different spreads, rounding up across .5, undelayed '
         'siblings; three-edge A,A,B patterns) is run with vectorize on/off at three time scales and compared exactly; Connectivity '
         'form and the adaptive solver are compared with the explicit linear chain integrated by the harness.',
    note='Kernels with integer rate and delay >= 2 steps (a delay of one step is neglected by design; (d/s)^2 < 1.5 needs a non-integer rate '
         'and is only covered by the adaptive comparison); D36 / D50 (loud) matched by class.',
    technique='TLA+ augmented-ODE spec (TLC computes exact iterates), exact replay through run(), adaptive comparison with the explicit chain',
    ref='6/C11'),

 'C05': dict(
    text='spec/Expr.tla gives expression trees an exact rational value (Eval) and renders them as equation text in four spellings (^ '
         'or **, spacing, minimal / redundant parentheses) and with commuted operands; spec/ExprCases.tla enumerates the trees (all of '
         'depth <= 1, repeated sub-expressions, precedence-sensitive depth 2; all depth 2 in thorough) and TLC checks CommuteInvariant / '
         'NegTwice. Every rendering, under six variable-name sets (prefix/suffix pairs, names resembling generated labels such as x_v1, '
         'weight, r_in0), is evaluated directly (ComputeGraph.eval_node) and through the generated function of a one-equation operator '
         'in both derivative notations; both must equal the exact value. Calls (sin, cos, tanh, exp, sigmoid) against the NumPy '
         'meaning; index helpers against NumPy indexing.',
    note='Loud findings D29 (call with a variable-free argument) and D53 (product/quotient of sums sharing a variable left unevaluated) '
         'are recognised by their exact failure signature; any wrong *value* is always a violation.',
    technique='TLA+ expression semantics + renderer (TLC enumeration), replay of every spelling through both evaluation paths',
    ref='6/C05'),

 'C15': dict(
    text='(A) spec/Replace.tla: the character scanner of parser.replace (layer P) against token-wise substitution (layer M) for every '
         'equation of <= 3 (4) tokens over identifiers that contain one another (r, rr, r_in, m_in, m_in2, x, x_v1, in) and every '
         'term - TLC invariant ReplaceIsWholeIdentifier, every pair replayed on parser.replace; (B) programs of spec/Wiring.tla built '
         'with the Python classes, saved with to_yaml, caches cleared, loaded with from_yaml (flat / hierarchical, edge templates, '
         'vectorize on/off, saved twice): the probed field of the loaded circuit must equal Denote; (C) operators derived through '
         'YAML base: with replace / remove / append edits must be the token-wise edit and leave the base untouched.',
    note='Round trips use one operator object per node: per-node overrides of a shared operator are known findings D54 / D55 (pinned, loud); '
         'D23 (template cache keyed by path) is an assumption of from_yaml.',
    technique='TLA+ scanner-vs-token refinement (TLC exhaustive), replay of every pair; denotational round-trip check through real YAML files',
    ref='6/C15'),

 'C02': dict(
    text='spec/Backends.tla: the per-backend primitives (interpolation helpers of NumPy/JAX, Torch and Fortran; 0-/1-based element and '
         'slice addressing; roll vs cshift) as implemented, each checked by TLC to equal the reference on the whole lattice, each '
         'historic deviation shown to violate it; solver variants are the Solver.tla cases. Conformance: (a) Solver.tla cases (C03 / '
         'C08 / C09 families) run through run(backend=torch|jax|fortran) in float32/float64 with in-place and returned vector field, '
         'compared with the expected rows of layer M (not merely pairwise); (b) Jacobian.tla models over the documented function set '
         'compiled per backend and compared with the evaluated trees; (c) index helpers on vector variables (variable / literal index, '
         'read, range) per backend; (d) the input interpolation of every backend on knots, midpoints and outside the range.',
    note='Fortran: vectorize=False and a limited number of compiled models (f2py ~6 s each); torch/heun and jax/ring-buffer requests must '
         'raise (C20); D57 (loud) matched by class; julia/matlab not installed.',
    technique='TLA+ primitive-refinement spec (TLC), replay of TLC-computed expectations through every installed backend',
    ref='6/C02'),
}

NOT_YET = 'check not built yet in this round (planned in DESIGN.md section 6); not claimed'


def main():
    props = [json.loads(l) for l in open(os.path.join(ROOT, 'properties.jsonl'))]
    checks, na = [], []
    for p in props:
        pid = p['id']
        if pid in CLAIMED:
            c = CLAIMED[pid]
            checks.append(dict(property_id=pid, quick_cmd=f'./check {pid} --tier quick',
                               thorough_cmd=f'./check {pid} --tier thorough',
                               evidence_file=f'/verif/evidence/{pid}.json',
                               replay_cmd_template=f'./check {pid} --replay {{path}}', engine='tlc+replay',
                               level_claimed=dict(category='model_checking', text=c['text'] + EXTRA_TEXT.get(pid, ''), design_ref=c['ref']),
                               level_note=c['note'], technique=c['technique']))
        else:
            na.append(dict(property_id=pid, reason=NA.get(pid, NOT_YET)))
    hooks_commits = []
    hc = os.path.join(ROOT, 'hook_commits.txt')
    if os.path.exists(hc):
        hooks_commits = [l.split()[0] for l in open(hc) if l.strip()]
    m = dict(version=1,
             setup_cmd='./setup.sh',
             hooks=dict(guard='PYRATES_VERIF', enable='export PYRATES_VERIF=1 (set by ./check); pure-Python hooks, no rebuild needed',
                        baseline_off_cmd='cd /repo && env -u PYRATES_VERIF /venv/bin/python -m pytest -ra -q -p no:cacheprovider --timeout=900 --continue-on-collection-errors tests',
                        source_commits=hooks_commits, add_only=True),
             engines=[dict(name='tlc+replay', path='/verif/harness', serves_properties=sorted(CLAIMED),
                           kind_free_text='TLA+ specifications in /verif/spec checked by TLC; behaviours exported by TLC are '
                                          'replayed into PyRates built from /repo; logs recorded from PyRates are validated '
                                          'by TLC against trace specifications in /verif/spec/trace')],
             checks=checks, not_applicable=na,
             notes='All checks are decided by the TLA+ specification (design check + conformance). See DESIGN.md.')
    with open(os.path.join(ROOT, 'MANIFEST.json'), 'w') as f:
        json.dump(m, f, indent=1)


NA = {}

# coverage added after the second round of seeded changes (appended to the level texts)
EXTRA_TEXT = {'C01': ' Edges whose template reads a second variable given as a path (w*(source - x_ref)) are part of Denote (RefProgs); class RefGroupMismatch (D61) is kept out of the vectorised runs and pinned.',
              'C02': ' A function compiled earlier must keep its precision when another model is compiled for the same backend in the other precision.',
              'C04': ' Populations include source maps with a duplicate and a gap (index-based projection) and templated edges with path-valued inputs (D61 / D62 classes excluded, pinned / signature).',
              'C07': ' Override values include 0 and all/ per-node arrays through node_values; a circuit derived with update_template that shares privately copied node templates with its base is explored to depth 4-5 (alias variable, deviations UpdateVarInPlaceWhenPrivate, DerivedSharesEdgeDicts; derivation with and without an additional edge).',
              'C09': ' An undelayed global (scalar-weight) Connectivity next to a delayed one, three delayed edge groups leaving one source variable and Connectivity(spread=0.0) are part of the cases.',
              'C10': ' (e) adaptive solver with a delayed edge (the edge becomes a past() term): exact polynomial chain, float- and integer-typed delays, three time scales.',
              'C11': ' Plain discrete-delay kernels are part of Gamma.tla (class D59 - one source variable feeding a distributed and a discrete delay - excluded, three pinned reproducers); a coarse time scale (dt = 16) exercises the chain-grouping keys; dde_approx also in Connectivity form.',
              'C12': ' A quarter of the models is compiled after the same equations were compiled in the same process with another state layout.',
              'C14': ' Derive.tla (BaseUntouched) is replayed for every edit dictionary through update_template and YAML base:; the universe contains a node overriding an operator another node uses as declared (explicit dict-form variable) and a circuit derived from an edge-less base with a new edge (Derive2Copies).',
              'C15': " Derive.tla: derived equations = token-wise edit of the parent's equations (replace, remove, append, prepend) plus the added equations verbatim, Python and YAML forms; Replace.tla uses the full delimiter set of the equation language; the round trip also re-uses a path that held another model.", 'C16': ' Also: two scalar (global) weights converging on one variable, two coupling templates that differ in a constant only, a source variable that is not the declared output of its operator, a population circuit compiled twice.',
              'C17': ' Also sweeps over two attributes (weight and delay) of one edge.',
              'C18': ' STPNT must load the declared initial state into the layout FUNC reads (distinct initial values, reversed edge direction). The slot loop is additionally verified for every parameter count: Apalache discharges the inductive invariant of spec/apalache/AutoLoopInd.tla (initiation, consecution, IndInv => Safe, monotonicity) and finds the error in the copy with the forgotten offset.',
              'C19': ' One variant places the times far from the origin (2^36 + k 2^-5).',
              'C20': ' The request matrix includes the Population/Connectivity form and both orders of mixed delay kinds; malformed models include every reserved variable name a variable declared only by a sibling operator (both orders), a misspelt variable addressed on a later member of a vectorised group and an edge template with two terminal operators of one output name.'}

if __name__ == '__main__':
    main()
