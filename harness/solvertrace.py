"""Code -> spec binding for the fixed-step solver (C03 / C09 / C10): every call of the generated right-hand side during
a real CircuitTemplate.run is logged through the public `decorator=` keyword and the log is validated by TLC against
the actions of spec/Solver.tla (spec/trace/TraceSolver.tla).  No hook in /repo is needed."""
import json, os, tempfile
from . import tlc, linmodel
from .pool import run_cases


def _int(v):
    r = round(v)
    if abs(v - r) > 1e-9:
        raise ValueError(f'non-integral value {v!r} in the exact regime')
    return int(r)


def record(job):
    """Runs the case once with a logging decorator around the vector field; returns the trace (spec units)."""
    import numpy as np
    case, scale = job['case'], job.get('scale', 1.0)
    m, cfg = case['m'], case['cfg']
    form = cfg.get('form', 'nodes')
    # positions of the nodes in the state vector: from a compile of the same model with pairwise distinct initial values
    try:
        _, _, _, pos = linmodel.compile_model(m, scale, cfg['vec'], inputs=linmodel.inputs_of(m, scale, cfg['steps']) or None,
                                              form=form)
    except Exception as e:
        return dict(tid=job['tid'], error=f'layout: {type(e).__name__}: {e}'[:300])
    from pyrates import clear_frontend_caches
    clear_frontend_caches()
    calls = []

    def deco(func, **kw):
        def wrapped(t, y, *args):
            yv = np.array(y, dtype='float64', copy=True).ravel()
            dy = func(t, y, *args)
            calls.append((float(np.real(t)), yv, np.array(dy, dtype='float64', copy=True).ravel()))
            return dy
        return wrapped

    obs = linmodel.run_model(m, cfg, scale=scale, decorator=deco, form=form)
    if 'exc' in obs:
        return dict(tid=job['tid'], error=f"run: {obs['exc']}: {obs.get('msg')}"[:300])
    n = m['n']
    try:
        evs = []
        for t, yv, dy in calls:
            evs.append(dict(ev='rhs', t=_int(t),      # fixed-step solvers pass the step counter, not the time
                             y=[_int(yv[pos[i]]) for i in range(1, n + 1)],
                            dy=[_int(dy[pos[i]] * scale) for i in range(1, n + 1)]))
        evs.append(dict(ev='rows', index=[_int(t) for t in obs['index']], rows=[[_int(v) for v in r] for r in obs['rows']]))
    except ValueError as e:
        return dict(tid=job['tid'], error=str(e))
    return dict(tid=job['tid'], case=dict(m=m, cfg=cfg), events=evs, ncalls=len(calls))


def validate(ctx, name, traces, devs):
    """TLC decides for every trace whether it is a behaviour of Solver.tla with Dev = devs.  Returns (accepted ids,
    {rejected id: position info})."""
    d = tempfile.mkdtemp(prefix='pyrates-verif-tr-')
    try:
        f = os.path.join(d, 'traces.json')
        with open(f, 'w') as fh:
            json.dump([dict(tid=t['tid'], case=t['case'], events=t['events']) for t in traces], fh)
        cfgt = tlc.cfg(constants=dict(Dev=set(devs)), init='TInit', next='TNext', invariants=['Accept', 'Stuck'])
        res = tlc.run_tlc('TraceSolver', cfgt, workers=1, env={'TRACE_FILE': f}, defs=dict(Cases='{}'), timeout=3000)
    finally:
        import shutil; shutil.rmtree(d, ignore_errors=True)
    ctx.add_tlc(f'trace:{name}:{"+".join(sorted(devs)) or "none"}', res, 'trace validation of recorded right-hand-side calls')
    acc = set(json.loads(x) for x in res['tuples'].get('ACCEPT', []))
    rej = {}
    for x in res['tuples'].get('REJECT', []):
        parts = [p.strip() for p in x.split(',')]
        rej[json.loads(parts[0])] = dict(event=int(parts[1]), pc=json.loads(parts[2]), step=int(parts[3]))
    return acc, rej


def check(ctx, name, cases, known_devs, finding_of, scales=(1.0, 0.5), cap=None):
    """Records one trace per (case, scale) and validates: accepted by M-conform P (Dev = {}) -> pass; accepted only with
    the deviations of open findings switched on -> known finding; rejected by both -> violation."""
    jobs = []
    for k, c in enumerate(cases):
        if c['cfg']['solver'] == 'scipy':
            continue
        jobs.append(dict(case=dict(m=c['m'], cfg=c['cfg']), scale=scales[k % len(scales)], tid=f'{name}-{k}', dev=c.get('dev') or []))
    if cap:
        jobs = jobs[:cap]
    outs = run_cases(record, jobs, timeout=300)
    traces, bad = [], []
    for j, o in zip(jobs, outs):
        if 'harness_error' in o:
            raise RuntimeError(f'trace recording failed: {o}')
        (bad if 'error' in o else traces).append(o)
    for o in bad:
        ctx.violation(dict(kind='trace', what='run with a logging decorator failed or left the exact regime', case=o))
    if not traces:
        return
    byid = {t['tid']: t for t in traces}
    # binding test: a copy of the longest trace with one slope changed by one must be rejected at that event
    import copy
    longest = max(traces, key=lambda t: t['ncalls'])
    if longest['ncalls'] >= 1:
        bad_t = copy.deepcopy(longest)
        bad_t['tid'] = 'corrupted-' + longest['tid']
        k = longest['ncalls'] // 2
        bad_t['events'][k]['dy'][0] += 1
        traces_v = traces + [bad_t]
    else:
        bad_t, traces_v, k = None, traces, 0
    acc0, rej0 = validate(ctx, name, traces_v, set())
    if bad_t is not None:
        open_all = set(known_devs)
        a2, r2 = validate(ctx, name + ':binding', [bad_t], open_all)
        if bad_t['tid'] in acc0 or bad_t['tid'] in a2 or r2.get(bad_t['tid'], {}).get('event') != k + 1:
            ctx.violation(dict(kind='machinery', what='a corrupted trace was not rejected at the corrupted event (binding test)',
                               rejected=[rej0.get(bad_t['tid']), r2.get(bad_t['tid'])], corrupted_event=k + 1))
        ctx.notes[f'binding:{name}'] = dict(corrupted_event=k + 1, rejected_at=r2.get(bad_t['tid']))
    rest = [byid[t] for t in byid if t not in acc0]
    acc1, rej1 = (set(), {})
    open_devs = {d for d in known_devs if ctx.open_finding(finding_of[d])}
    if rest and open_devs:
        acc1, rej1 = validate(ctx, name, rest, open_devs)
    for t in traces:
        ctx.traces_validated += 1
        ctx.case(key=['trace', t['case'], t['tid']], nontrivial=t['ncalls'] >= 2)
        if t['tid'] in acc0:
            continue
        if t['tid'] in acc1:
            fid = sorted(finding_of[d] for d in open_devs)[0]
            job = next(j for j in jobs if j['tid'] == t['tid'])
            fired = [finding_of[d] for d in job['dev'] if d in finding_of]
            ctx.known_hit(fired[0] if fired else fid, dict(case=t['case'], what='call-level trace accepted only by the deviating model'))
            continue
        where = rej1.get(t['tid']) or rej0.get(t['tid'])
        ev = t['events'][where['event'] - 1] if where and where['event'] <= len(t['events']) else None
        ctx.violation(dict(kind='trace', what='recorded right-hand-side calls are not a behaviour of Solver.tla',
                           case=t['case'], rejected_at=where, event=ev, events_before=t['events'][max(0, (where or dict(event=1))['event'] - 3):(where or dict(event=1))['event'] - 1]))
    ctx.notes[f'traces:{name}'] = dict(recorded=len(traces), accepted_M=len(acc0), accepted_known=len(acc1))
