"""Builds the linear integer networks of spec/Solver.tla through the public PyRates frontend and runs them.

node i:  x' = c + a*x + u + ext   (u: edges, ext: extrinsic input); one shared OperatorTemplate per kind,
per-node values as node-level overrides (the documented way to parametrise nodes)."""
import warnings


def _ops():
    from pyrates import OperatorTemplate
    v = {'x': 'output(0.0)', 'c': 0.0, 'a': 0.0, 'u': 'input(0.0)', 'ext': 'input(0.0)'}
    eqs = {1: "x' = c + a*x + u + ext", 2: "x' = ext + u + a*x + c", 3: "x' = (c + u) + (a*x + ext)",
           4: "x' = a*x + c + (u + ext)"}
    ops = {k: OperatorTemplate(f'lin{k}', equations=[e], variables=dict(v)) for k, e in eqs.items()}
    vd = dict(v, kd=0.0, taud=1.0)
    ops[5] = OperatorTemplate('lin5', equations=["x' = c + a*x + u + ext + kd*past(x, taud)"], variables=vd)
    return ops


def build(m, scale=1.0, node_order=None, delay_jitter=0.0, name='net', int_delays=False, share=False):
    """share: nodes with identical kind and values are built from ONE NodeTemplate object"""
    """scale = dt_real; coefficients are divided by dt so that the Euler/Heun iterates are those of dt = 1."""
    from pyrates import NodeTemplate, CircuitTemplate
    ops = _ops()
    n = m['n']
    order = node_order or list(range(1, n + 1))
    nodes = {}
    shared = {}
    for i in order:
        op = ops[m['kind'][i - 1]]
        over = {'c': m['c'][i - 1] / scale, 'a': m['a'][i - 1] / scale, 'x': float(m['x0'][i - 1])}
        if m['kind'][i - 1] == 5:
            sd = m['sd'][i - 1]
            over.update(kd=sd['k'] / scale, taud=(sd['lag'] + delay_jitter) * scale)
        key = (m['kind'][i - 1], tuple(sorted(over.items())))
        if share and key in shared:
            nodes[f'n{i}'] = shared[key]
        else:
            nodes[f'n{i}'] = shared[key] = NodeTemplate(f'n{i}', operators={op: over})
    edges = []
    for e in m['edges']:
        attr = {'weight': e['w'] / scale}
        if e['lag'] > 0:
            attr['delay'] = (e['lag'] + delay_jitter) * scale
            if int_delays and float(attr['delay']).is_integer():
                attr['delay'] = int(attr['delay'])       # `delay: 2` as a user writes it
        if e.get('spread'):
            attr['spread'] = e['spread'] * scale
        edges.append((f"n{e['s']}/lin{m['kind'][e['s'] - 1]}/x", f"n{e['t']}/lin{m['kind'][e['t'] - 1]}/u", None, attr))
    return CircuitTemplate(name, nodes=nodes, edges=edges)


def pop_layout(m):
    """populations = kinds (nodes of one kind, in node order)."""
    pops = {}
    for i, k in enumerate(m['kind'], start=1):
        pops.setdefault(k, []).append(i)
    return pops


def build_pop(m, scale=1.0, delay_jitter=0.0, name='popnet', zero_spread=False):
    """The same model as PopulationTemplate / Connectivity objects: one population per kind with per-unit params,
    one Connectivity per (source population, target population, lag) carrying the weight matrix W[target, source]."""
    import numpy as np
    from pyrates import NodeTemplate, CircuitTemplate
    from pyrates.frontend.template.population import PopulationTemplate, Connectivity
    ops = _ops()
    pops = pop_layout(m)
    populations = {}
    for k, members in pops.items():
        node = NodeTemplate(f'p{k}', operators=[ops[k]])
        populations[f'p{k}'] = PopulationTemplate(f'p{k}', node, len(members), params={
            f'lin{k}/c': [m['c'][i - 1] / scale for i in members], f'lin{k}/a': [m['a'][i - 1] / scale for i in members],
            f'lin{k}/x': [float(m['x0'][i - 1]) for i in members]})
    groups = {}
    for e in m['edges']:
        ks, kt = m['kind'][e['s'] - 1], m['kind'][e['t'] - 1]
        W = groups.setdefault((ks, kt, e['lag'], e.get('spread') or 0), np.zeros((len(pops[kt]), len(pops[ks]))))
        W[pops[kt].index(e['t']), pops[ks].index(e['s'])] += e['w'] / scale
    conns = []
    for (ks, kt, lag, spread), W in groups.items():
        if not lag and not spread and W.size > 1 and np.all(W == W.flat[0]) and W.flat[0] != 0:
            W = float(W.flat[0])          # uniform all-to-all block: the scalar (global) weight form
        conns.append(Connectivity(f'p{ks}/lin{ks}/x', f'p{kt}/lin{kt}/u', W,
                                  delays=((lag + delay_jitter) * scale if lag else None),
                                  spread=(spread * scale if spread else (0.0 if zero_spread and lag else None))))
    return CircuitTemplate(name, populations=populations, connections=conns)


def inputs_of(m, scale=1.0, steps=None):
    import numpy as np
    inp = {}
    for i, ext in enumerate(m['ext'], start=1):
        if ext:
            arr = np.asarray(ext, dtype='float64') / scale
            if steps is not None:
                arr = arr[:steps]
            inp[f"n{i}/lin{m['kind'][i - 1]}/ext"] = arr
    return inp


def run_model(m, cfg, scale=1.0, precision='float64', backend='default', cutoff_shift=0.0, node_order=None,
              delay_jitter=0.0, decorator=None, form='nodes', decimal=False, int_delays=False, zero_spread=False, **kw):
    """Returns dict(index=[...], rows=[[x_1..x_n] per row]) or dict(exc=type name)."""
    import numpy as np
    warnings.filterwarnings('ignore')
    circ = build(m, scale, node_order, delay_jitter, int_delays=int_delays) if form == 'nodes' else build_pop(m, scale, delay_jitter, zero_spread=zero_spread)
    steps, store = cfg['steps'], cfg['store']
    T, dt, dts = steps * scale, scale, store * scale
    cutoff = max(cfg['cut'] - cutoff_shift, 0) * scale
    if decimal:      # the floats a user writes for a decimal step size: 0.3, not 3 * 0.1 = 0.30000000000000004
        T, dt, dts, cutoff = round(T, 12), round(dt, 12), round(dts, 12), round(cutoff, 12)
    inp = inputs_of(m, scale, steps)
    if form == 'nodes':
        outs = {f'o{i}': f"n{i}/lin{m['kind'][i - 1]}/x" for i in range(1, m['n'] + 1)}
    else:
        outs = {f'p{k}': f'p{k}/lin{k}/x' for k in pop_layout(m)}
    extra = dict(kw)
    if decorator is not None:
        extra['decorator'] = decorator
    try:
        res = circ.run(T, dt, inputs=inp or None, outputs=outs, sampling_step_size=dts, cutoff=cutoff,
                       solver=cfg['solver'], backend=backend, vectorize=cfg['vec'], verbose=False, clear=True,
                       in_place=False, float_precision=precision, **extra)
    except Exception as e:
        import traceback
        return dict(exc=type(e).__name__, msg=str(e)[:300], tb=traceback.format_exc()[-800:])
    if form == 'nodes':
        cols = [res[f'o{i}'] for i in range(1, m['n'] + 1)]
    else:
        pops = pop_layout(m)
        where = {i: (k, members.index(i)) for k, members in pops.items() for i in members}
        bycol = {}
        for col in res.columns:
            if isinstance(col, tuple) and all(isinstance(x, str) for x in col) and ''.join(col) in outs:
                key, unit = ''.join(col), 0     # a plain string key that MultiIndex.from_tuples split into characters
            elif isinstance(col, tuple):
                key, unit = col[0], col[1]
                unit = 0 if (isinstance(unit, str) or unit != unit) else int(unit)   # '' / NaN filler for single columns
            else:
                key, unit = col, 0
            bycol[(key, unit)] = res[col]
        cols = [bycol[(f'p{where[i][0]}', where[i][1])] for i in range(1, m['n'] + 1)]
    rows = np.stack([np.asarray(c.values, dtype='float64').reshape(len(res.index)) for c in cols], axis=1)
    return dict(index=[float(t) / scale for t in res.index], rows=rows.tolist())


def expected_rows(case, which='expM'):
    cfg = case['cfg']
    rows = case[which]
    keep = [r for r in range(len(rows)) if r * cfg['store'] >= cfg['cut']]
    return dict(index=[float(r * cfg['store']) for r in keep], rows=[[float(v) for v in rows[r]] for r in keep])


def compile_model(m, scale=1.0, vec=True, inputs=None, precision='float64', backend='default', form='nodes', **kw):
    """get_run_func on the model with pairwise distinct initial values 101, 102, ... so that the position of every
    node's state variable in y is recovered from the returned initial state alone (public contract only).
    Returns (func, args, arg_names, pos: node -> index in y)."""
    import numpy as np
    warnings.filterwarnings('ignore')
    m2 = dict(m, x0=[100 + i for i in range(1, m['n'] + 1)])
    circ = build(m2, scale) if form == 'nodes' else build_pop(m2, scale)
    func, args, names, svm = circ.get_run_func('vf', scale, inputs=inputs, vectorize=vec, verbose=False, clear=False,
                                               in_place=False, float_precision=precision, backend=backend, **kw)
    y0 = np.asarray(args[1], dtype='float64').ravel()
    pos = {}
    for i in range(1, m['n'] + 1):
        hits = [int(k) for k in np.flatnonzero(y0 == 100 + i)]
        if len(hits) != 1:
            raise AssertionError(f'initial value of node {i} found at positions {hits} of y0={y0.tolist()}')
        pos[i] = hits[0]
    return func, args, names, pos
