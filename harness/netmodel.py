"""Realises the programs of spec/Wiring.tla through the public frontend and recovers the affine field of the
compiled function by probing (public contract only: func, args, and distinct initial values for positions)."""
import warnings

X0 = {'x': 100, 'z': 200, 'q': 300}
KIND_OPS = {'L': ['lin'], 'P': ['prod', 'lin'], 'Q': ['lin', 'prod'], 'S': ['lin', 'aux']}
OP_OF_VAR = {'x': 'lin', 'z': 'prod', 'q': 'aux'}


def _library(names=None, eqform=0):
    from pyrates import OperatorTemplate, EdgeTemplate
    nm = dict(x='x', z='z', q='q', u='u', v='v', c='c', a='a')
    if names:
        nm.update(names)
    lin_eq = [f"{nm['x']}' = {nm['c']} + {nm['a']}*{nm['x']} + {nm['u']} + 10*{nm['v']}",
              f"{nm['x']}' = ({nm['c']} + {nm['a']}*{nm['x']}) + 10*{nm['v']} + ({nm['u']})",
              f"d/dt * {nm['x']} = {nm['u']} + {nm['v']}*10 + {nm['x']}*{nm['a']} + {nm['c']}",
              f"{nm['x']}' = {nm['c']}+{nm['a']}*{nm['x']}+10*{nm['v']}+{nm['u']}"][eqform]
    ops = {
        'lin': OperatorTemplate('lin', equations=[lin_eq],
                                variables={nm['x']: 'output(0.0)', nm['c']: 0.0, nm['a']: 0.0, nm['u']: 'input(0.0)', nm['v']: 'input(0.0)'}),
        'prod': OperatorTemplate('prod', equations=[f"{nm['z']}' = -2*{nm['z']}", f"{nm['u']} = 3*{nm['z']}"],
                                 variables={nm['z']: 'variable(0.0)', nm['u']: 'output(0.0)'}),
        'aux': OperatorTemplate('aux', equations=[f"{nm['q']}' = -3*{nm['q']}"], variables={nm['q']: 'output(0.0)'}),
    }
    eop = OperatorTemplate('eop', equations=["m_out = 3*m_in"], variables={'m_out': 'output(0.0)', 'm_in': 'input(0.0)'})
    return ops, EdgeTemplate('etmp', operators=[eop]), nm


def _ref_template():
    """edge template with a second input bound to a variable path: m_out = m_in - x_ref"""
    from pyrates import OperatorTemplate, EdgeTemplate
    dop = OperatorTemplate('dop', equations=["m_out = m_in - x_ref"],
                           variables={'m_out': 'output(0.0)', 'm_in': 'input(0.0)', 'x_ref': 'input(0.0)'})
    return EdgeTemplate('dtmp', operators=[dop])


def node_path(n, hier):
    """hier 0: flat 'n<i>'; 1: every node inside sub-circuit 'c<i mod 2>'; 2: two levels."""
    if hier == 0:
        return f'n{n}'
    if hier == 1:
        return f'c{n % 2}/n{n}'
    return f'top{n % 2}/c0/n{n}'


def build(prog, hier=0, order=None, names=None, name='net', eqform=0):
    from pyrates import NodeTemplate, CircuitTemplate
    ops, etmp, nm = _library(names, eqform)
    nodes = {}
    idxs = order or list(range(1, len(prog['nodes']) + 1))
    for n in idxs:
        nd = prog['nodes'][n - 1]
        over = {}
        for o in KIND_OPS[nd['kind']]:
            if o == 'lin':
                over[ops[o]] = {nm['c']: float(nd['c']), nm['a']: float(nd['a']), nm['u']: float(nd['du']), nm['v']: float(nd['dv']),
                                nm['x']: float(X0['x'] + n)}
            elif o == 'prod':
                over[ops[o]] = {nm['z']: float(X0['z'] + n)}
            else:
                over[ops[o]] = {nm['q']: float(X0['q'] + n)}
        nodes[n] = NodeTemplate(f'n{n}', operators=over)
    edges = []
    dtmp = None
    for e in prog['edges']:
        src = f"{node_path(e['s'], hier)}/{OP_OF_VAR[e['sv']]}/{nm[e['sv']]}"
        tgt = f"{node_path(e['t'], hier)}/lin/{nm[e['tv']]}"
        if e.get('ref'):
            dtmp = dtmp or _ref_template()
            edges.append((src, tgt, dtmp, {'weight': float(e['w']), 'dtmp/dop/m_in': 'source',
                                            'dtmp/dop/x_ref': f"{node_path(e['ref'], hier)}/lin/{nm['x']}"}))
            continue
        edges.append((src, tgt, etmp if e['tm'] else None, {'weight': float(e['w'])}))
    if hier == 0:
        return CircuitTemplate(name, nodes={f'n{n}': t for n, t in nodes.items()}, edges=edges)
    if hier == 1:
        subs = {}
        for n, t in nodes.items():
            subs.setdefault(f'c{n % 2}', {})[f'n{n}'] = t
        return CircuitTemplate(name, circuits={k: CircuitTemplate(k, nodes=v) for k, v in subs.items()}, edges=edges)
    tops = {}
    for n, t in nodes.items():
        tops.setdefault(f'top{n % 2}', {})[f'n{n}'] = t
    return CircuitTemplate(name, circuits={k: CircuitTemplate(k, circuits={'c0': CircuitTemplate('c0', nodes=v)})
                                           for k, v in tops.items()}, edges=edges)


def probe(func, args, sv):
    """Affine field dy = A y + b recovered from the compiled function; rows/columns ordered like sv (positions found
    through the distinct initial values)."""
    import numpy as np
    y0 = np.asarray(args[1], dtype='float64').ravel()
    pos = []
    for s in sv:
        want = X0[s['v']] + s['n']
        hits = [int(k) for k in np.flatnonzero(y0 == want)]
        if len(hits) != 1:
            return dict(layout_error=f"initial value {want} of {s} found at {hits} in y0={y0.tolist()}")
        pos.append(hits[0])
    if len(set(pos)) != len(pos) or len(y0) != len(sv):
        return dict(layout_error=f'positions {pos} of {len(sv)} variables in a state vector of length {len(y0)}')
    n = len(y0)
    b = np.array(func(0, np.zeros(n), *args[2:]), dtype='float64').ravel()[:n].copy()
    A = np.zeros((n, n))
    for j in range(n):
        e = np.zeros(n); e[j] = 1.0
        A[:, j] = np.array(func(0, e, *args[2:]), dtype='float64').ravel()[:n] - b
    # affine check at a further point (the library is affine; a non-affine result would show here)
    yv = np.arange(1, n + 1, dtype='float64')
    lin_ok = bool(np.array_equal(np.array(func(0, yv.copy(), *args[2:]), dtype='float64').ravel()[:n], A @ yv + b))
    rows = [dict(coef=[float(A[pos[i], pos[j]]) for j in range(len(sv))], const=float(b[pos[i]])) for i in range(len(sv))]
    return dict(field=rows, affine=lin_ok)


def compile_prog(prog, sv, vectorize, hier=0, order=None, names=None, backend='default', eqform=0, **kw):
    warnings.filterwarnings('ignore')
    try:
        c = build(prog, hier, order, names, eqform=eqform)
        func, args, anames, svm = c.get_run_func('vf', 1e-3, vectorize=vectorize, verbose=False, clear=True, in_place=False,
                                                 float_precision='float64', backend=backend, **kw)
        out = probe(func, args, sv)
        out['args'] = {k: (float(v) if getattr(v, 'shape', ()) == () else None) for k, v in zip(anames[3:], args[3:])
                       if not hasattr(v, '__call__')}
        return out
    except Exception as e:
        import traceback
        return dict(exc=type(e).__name__, msg=str(e)[:300], tb=traceback.format_exc()[-800:])


def expected_field(p):
    return [dict(coef=[float(c) for c in r['coef']], const=float(r['const'])) for r in p['field']]


def build_population(prog, name='popnet'):
    """prog['pop'] = {pops: [{kind, n}], conns: [{sp, tp, tv, w, sw, cpl}]} as PopulationTemplate / Connectivity objects"""
    import numpy as np
    from pyrates import NodeTemplate, CircuitTemplate, OperatorTemplate, EdgeTemplate
    from pyrates.frontend.template.population import PopulationTemplate, Connectivity
    ops, etmp, nm = _library()
    pops, conns = prog['pop']['pops'], prog['pop']['conns']
    first, k = [], 1
    for p in pops:
        first.append(k); k += p['n']
    populations = {}
    for pi, p in enumerate(pops):
        node = NodeTemplate(f'pn{pi + 1}', operators=[ops[o] for o in KIND_OPS[p['kind']]])
        units = [prog['nodes'][first[pi] + u - 1] for u in range(p['n'])]
        params = {'lin/c': [float(u['c']) for u in units], 'lin/a': [float(u['a']) for u in units],
                  'lin/x': [float(X0['x'] + first[pi] + u) for u in range(p['n'])]}
        if p['kind'] == 'S':
            params['aux/q'] = [float(X0['q'] + first[pi] + u) for u in range(p['n'])]
        if p['kind'] in ('P', 'Q'):
            params['prod/z'] = [float(X0['z'] + first[pi] + u) for u in range(p['n'])]
        populations[f'p{pi + 1}'] = PopulationTemplate(f'p{pi + 1}', node, p['n'], params=params)
    # one coupling operator with a constant gain; the second template differs in that constant only (same equations)
    cpre_op = OperatorTemplate('cpre_op', equations=['m_out = g*m_pre'],
                               variables={'m_out': 'output(0.0)', 'm_pre': 'input(0.0)', 'g': 3.0})
    pre = EdgeTemplate('cpre', operators=[cpre_op])
    pre6 = EdgeTemplate('cpre6', operators={cpre_op: {'g': 6.0}})
    diff = EdgeTemplate('cdiff', operators=[OperatorTemplate('cdiff_op', equations=['m_out = m_pre - m_post'],
                                                              variables={'m_out': 'output(0.0)', 'm_pre': 'input(0.0)', 'm_post': 'input(0.0)'})])
    # two chained coupling operators, declared against their dependency order: m_out = 2*g, g = 3*m_pre
    pre2 = EdgeTemplate('cpre2', operators=[
        OperatorTemplate('cdrive_op', equations=['m_out = 2*g'], variables={'m_out': 'output(0.0)', 'g': 'input(0.0)'}),
        OperatorTemplate('csat_op', equations=['g = 3*m_pre'], variables={'g': 'output(0.0)', 'm_pre': 'input(0.0)'})])
    connections = []
    for c in conns:
        W = np.array(c['w'], dtype='float64') if c['w'] else float(c['sw'])
        kw = {}
        if c['cpl'] == 'pre':
            kw = dict(edge=pre, edge_var_map={'m_pre': 'source'})
        elif c['cpl'] == 'pre6':
            kw = dict(edge=pre6, edge_var_map={'m_pre': 'source'})
        elif c['cpl'] == 'pre2':
            kw = dict(edge=pre2, edge_var_map={'m_pre': 'source'})
        elif c['cpl'] == 'diff':
            kw = dict(edge=diff, edge_var_map={'m_pre': 'source', 'm_post': f"p{c['tp']}/lin/x"})
        src = f"p{c['sp']}/prod/z" if c.get('sv') == 'z' else f"p{c['sp']}/lin/x"
        connections.append(Connectivity(src, f"p{c['tp']}/lin/{c['tv']}", W, **kw))
    return CircuitTemplate(name, populations=populations, connections=connections)


def build_explicit_from_matrix(prog, name='explnet'):
    """the same circuit as n separately declared nodes with add_edges_from_matrix (one scalar edge per non-zero entry)"""
    import numpy as np
    from pyrates import CircuitTemplate
    ops, etmp, nm = _library()
    base = build(dict(nodes=prog['nodes'], edges=[]), name=name)
    pops, conns = prog['pop']['pops'], prog['pop']['conns']
    first, k = [], 1
    for p in pops:
        first.append(k); k += p['n']
    for c in conns:
        ns, nt = pops[c['sp'] - 1]['n'], pops[c['tp'] - 1]['n']
        W = np.array(c['w'], dtype='float64') if c['w'] else np.full((nt, ns), float(c['sw']))
        src = [f'n{first[c["sp"] - 1] + j}' for j in range(ns)]
        tgt = [f'n{first[c["tp"] - 1] + i}' for i in range(nt)]
        base.add_edges_from_matrix('prod/z' if c.get('sv') == 'z' else 'lin/x', f"lin/{c['tv']}", src, tgt, weight=W,
                                   template=etmp if c['cpl'] == 'pre' else None)
    return base


def compile_circuit_twice(circ, sv, vectorize, **kw):
    """the same circuit object compiled twice with the default in_place=True (trial run, then the real one): the second
    compilation is probed"""
    warnings.filterwarnings('ignore')
    try:
        circ.get_run_func('vf0', 1e-3, vectorize=vectorize, verbose=False, clear=True, float_precision='float64', **kw)
        func, args, anames, svm = circ.get_run_func('vf', 1e-3, vectorize=vectorize, verbose=False, clear=True,
                                                    float_precision='float64', **kw)
        return probe(func, args, sv)
    except Exception as e:
        import traceback
        return dict(exc=type(e).__name__, msg=str(e)[:300], tb=traceback.format_exc()[-800:])


def compile_circuit(circ, sv, vectorize, **kw):
    warnings.filterwarnings('ignore')
    try:
        func, args, anames, svm = circ.get_run_func('vf', 1e-3, vectorize=vectorize, verbose=False, clear=True, in_place=False,
                                                    float_precision='float64', **kw)
        return probe(func, args, sv)
    except Exception as e:
        import traceback
        return dict(exc=type(e).__name__, msg=str(e)[:300], tb=traceback.format_exc()[-800:])
