"""Fork-per-case execution pool.

The parent imports the code under test once; every case runs in a freshly forked child (pristine
module-level caches) inside its own scratch directory, with a time limit.  Results come back pickled
through a pipe."""
import os, pickle, shutil, signal, sys, tempfile, traceback, multiprocessing as mp

for _v in ('OMP_NUM_THREADS', 'OPENBLAS_NUM_THREADS', 'MKL_NUM_THREADS', 'NUMEXPR_NUM_THREADS'):
    os.environ.setdefault(_v, '1')


class CaseTimeout(Exception):
    pass


def _alarm(signum, frame):
    raise CaseTimeout()


def _run_one(func, case, scratch_root, timeout):
    scratch = tempfile.mkdtemp(prefix='case-', dir=scratch_root)
    r, w = os.pipe()
    pid = os.fork()
    if pid == 0:
        os.close(r)
        out = None
        try:
            os.chdir(scratch)
            sys.path.insert(0, scratch)
            devnull = os.open(os.devnull, os.O_WRONLY)
            os.dup2(devnull, 1)
            os.dup2(devnull, 2)
            signal.signal(signal.SIGALRM, _alarm)
            signal.alarm(timeout)
            out = func(case)
            signal.alarm(0)
        except CaseTimeout:
            out = {'harness_error': 'timeout'}
        except BaseException as e:  # harness-level failure inside the child
            out = {'harness_error': repr(e), 'tb': traceback.format_exc()[-2000:]}
        try:
            data = pickle.dumps(out)
        except Exception as e:
            data = pickle.dumps({'harness_error': 'unpicklable result: ' + repr(e)})
        with os.fdopen(w, 'wb') as f:
            f.write(data)
        os._exit(0)
    os.close(w)
    chunks = []
    with os.fdopen(r, 'rb') as f:
        while True:
            b = f.read(1 << 16)
            if not b:
                break
            chunks.append(b)
    _, status = os.waitpid(pid, 0)
    shutil.rmtree(scratch, ignore_errors=True)
    data = b''.join(chunks)
    if not data:
        return {'harness_error': f'child died (status {status})'}
    return pickle.loads(data)


def _worker(func, tasks, results, scratch_root, timeout):
    while True:
        item = tasks.get()
        if item is None:
            break
        idx, case = item
        try:
            out = _run_one(func, case, scratch_root, timeout)
        except BaseException as e:
            out = {'harness_error': 'worker: ' + repr(e)}
        results.put((idx, out))


def run_cases(func, cases, nproc=None, timeout=120, in_process=False):
    """Runs func(case) for every case, each in a pristine forked child.  Returns list of results
    in the order of `cases`."""
    cases = list(cases)
    if not cases:
        return []
    nproc = min(nproc or int(os.environ.get('VERIF_NPROC', os.cpu_count() or 4)), len(cases))
    scratch_root = tempfile.mkdtemp(prefix='pyrates-verif-')
    try:
        if in_process:
            cwd = os.getcwd()
            out = []
            for c in cases:
                d = tempfile.mkdtemp(dir=scratch_root); os.chdir(d)
                try:
                    out.append(func(c))
                finally:
                    os.chdir(cwd)
            return out
        ctx = mp.get_context('fork')
        tasks, results = ctx.Queue(), ctx.Queue()
        procs = [ctx.Process(target=_worker, args=(func, tasks, results, scratch_root, timeout), daemon=True)
                 for _ in range(nproc)]
        for p in procs:
            p.start()
        for i, c in enumerate(cases):
            tasks.put((i, c))
        for _ in procs:
            tasks.put(None)
        out = [None] * len(cases)
        for _ in range(len(cases)):
            i, r = results.get()
            out[i] = r
        for p in procs:
            p.join()
        return out
    finally:
        shutil.rmtree(scratch_root, ignore_errors=True)
