"""Evaluator for the expression trees of spec/Expr.tla (NumPy meaning of the documented functions)."""
import math

FUNCS = {'sin': math.sin, 'cos': math.cos, 'exp': math.exp, 'tanh': math.tanh, 'log': math.log,
         'sigmoid': lambda x: 1.0 / (1.0 + math.exp(-x)), 'sqrt': math.sqrt, 'absv': abs}


def ev(t, env, past=None):
    k = t['k']
    if k == 'var':
        return env[t['n']]
    if k == 'lit':
        return float(t['c'])
    if k == 'past':
        return past(t['n'], t['c'])
    a = ev(t['a'][0], env, past) if t['a'] else None
    if k == 'neg':
        return -a
    if k == 'call':
        return FUNCS[t['n']](a)
    b = ev(t['b'][0], env, past)
    if k == 'add':
        return a + b
    if k == 'sub':
        return a - b
    if k == 'mul':
        return a * b
    if k == 'div':
        return a / b
    if k == 'pow':
        return a ** b
    raise ValueError(k)
