"""C03 - run() returns the numerical solution of the compiled system.   spec/Solver.tla, spec/SolverCases.tla"""
import json
from . import solver_common as sc
from ..pool import run_cases
from .. import linmodel

VARIANTS = [dict(scale=1.0, precision='float64', cutoff_shift=0.0),
            dict(scale=0.5, precision='float64', cutoff_shift=0.5),
            dict(scale=0.25, precision='float32', cutoff_shift=0.0),
            dict(scale=2.0, precision='float64', cutoff_shift=0.5)]


def _maxabs(case):
    return max([abs(v) for rows in (case['expM'], case['expP']) for r in rows for v in r] + [0])


def job(j):
    case, v = j['case'], j['variant']
    kw = {}
    if case['cfg']['solver'] == 'scipy':
        kw = dict(rtol=1e-9, atol=1e-11)
    return linmodel.run_model(case['m'], case['cfg'], scale=v['scale'], precision=v['precision'],
                              cutoff_shift=v['cutoff_shift'], decimal=v.get('decimal', False), **kw)


def variants_for(case, tier, k):
    vs = []
    for n, v in enumerate(VARIANTS):
        if v['cutoff_shift'] and case['cfg']['cut'] < 1:
            v = dict(v, cutoff_shift=0.0)
        if v['precision'] == 'float32' and _maxabs(case) >= 2 ** 21:
            v = dict(v, precision='float64')
        if case['cfg']['solver'] == 'scipy' and v['precision'] == 'float32':
            v = dict(v, precision='float64')
        vs.append(v)
    if tier == 'quick':
        return [vs[k % len(vs)], vs[(k // 4 + 1) % len(vs)]] if k % 3 == 0 else [vs[k % len(vs)]]
    return vs


def run(ctx):
    tier = ctx.tier
    bounds = (8, 3) if tier == 'quick' else (12, 3)
    ctx.rule = ('TLC enumerates every (model, steps, store, cutoff, solver, vectorize) case of C03Cases within the bounds and '
                'steps the solver loop; each case is run through CircuitTemplate.run in 1-4 time-scale/precision/cutoff-'
                'placement variants and compared exactly (index and every row); non-trivial = at least 2 rows before cutoff')
    ctx.assumptions += ['coefficients are integers (even for Heun), dt a dyadic rational: float arithmetic is exact, comparison is ==',
                        'T is a multiple of sampling_step_size in the enumeration (other T: known finding D21, pinned cases)',
                        'adaptive solver: only polynomial chain models with closed-form solution, tolerance 1e-6 relative',
                        'Heun with delayed edges: either second-stage reading of the delayed value (frozen / advanced) is accepted as M']
    cases = sc.tlc_cases(ctx, 'C03', f'C03Cases({bounds[0]}, {bounds[1]})')
    cases += sc.tlc_cases(ctx, 'C03adaptive', f'C03AdaptiveCases({6 if tier == "quick" else 10}, 2)')
    sc.vacuity(ctx, 'C03Cases(4, 2)', 'RollPerRhsCall')
    jobs = []
    for k, case in enumerate(cases):
        for v in variants_for(case, tier, k + ctx.seed):
            jobs.append(dict(case=case, variant=v))
        # decimal step sizes: T / dt is not an exact float quotient (0.3 / 0.1 = 2.9999999999999996); tolerance compare
        if case['cfg']['solver'] != 'scipy' and (k % 3 == 0 or tier == 'thorough') and not any(e.get('lag') for e in case['m']['edges']):
            jobs.append(dict(case=case, variant=dict(scale=[0.1, 0.001, 0.01][k % 3], precision='float64', cutoff_shift=0.0, decimal=True)))
    results = run_cases(job, jobs, timeout=300)
    for j, obs in zip(jobs, results):
        case, v = j['case'], j['variant']
        if isinstance(obs, dict) and 'harness_error' in obs:
            raise RuntimeError(f'replay failed: {obs}')
        ctx.replayed += 1
        nrows = len([r for r in range(len(case['expM'])) if r * case['cfg']['store'] >= case['cfg']['cut']])
        ctx.case(key=[case['m'], case['cfg'], v], nontrivial=nrows >= 2)
        if case['cfg']['solver'] == 'scipy':
            exp = linmodel.expected_rows(case, 'expM')
            if not sc.same(obs, exp, tol=1e-6):
                ctx.violation(dict(kind='conformance', what='adaptive run vs exact polynomial solution',
                                   case=dict(model=case['m'], cfg=case['cfg'], variant=v), observed=obs, expected=exp))
            continue
        sc.judge(ctx, case, v, obs, 'run() rows/index vs Euler/Heun iterates', tol=1e-9 if v.get('decimal') else 0.0)
    # code -> spec: the recorded right-hand-side calls of real runs must be a behaviour of Solver.tla
    import random
    from .. import solvertrace
    sel = [c for c in cases if c['cfg']['solver'] != 'scipy']
    random.Random(ctx.seed).shuffle(sel)
    solvertrace.check(ctx, 'C03', sel, sc.KNOWN_DEVS, sc.FINDING_OF, cap=300 if tier == 'quick' else 3000)
    for c in cases[7::max(1, len(cases) // 3)][:3]:
        ctx.sample(dict(model=c['m'], cfg=c['cfg'], expected_rows=c['expM'][:6]))
    pinned(ctx)


PINNED = [('D21', dict(steps=7, store=2, n=1, ext=False)), ('D21', dict(steps=5, store=2, n=1, ext=False)),
          ('D34', dict(steps=2, store=2, n=2, ext=False)), ('D35', dict(steps=1, store=1, n=1, ext=True))]


def pinned(ctx):
    """Known findings kept out of the enumeration by a constraint: their pinned reproducers are run every time
    and must fail exactly as recorded (or be correct, once repaired); any other outcome is a violation."""
    todo = [(f, s) for f, s in PINNED if ctx.open_finding(f)]
    outs = run_cases(_pinned_job, [dict(f=f, **s) for f, s in todo], timeout=120)
    for (f, spec), o in zip(todo, outs):
        ctx.case(key=['pinned', f, spec])
        if o.get('as_recorded'):
            ctx.known_hit(f, dict(case=spec, observed=o))
        elif o.get('correct'):
            ctx.notes.setdefault('pinned_no_longer_failing', []).append([f, spec])
        else:
            ctx.violation(dict(kind='conformance', what=f'pinned reproducer of {f} fails differently from the recorded finding',
                               case=spec, observed=o))


def _pinned_job(spec):
    n = spec['n']
    m = dict(n=n, c=[2] * n, a=[0] * n, x0=[1] * n, ext=[[4] * spec['steps'] if spec['ext'] else []] + [[]] * (n - 1),
             kind=[1] * n, edges=[])
    cfg = dict(steps=spec['steps'], store=spec['store'], cut=0, solver='euler', vec=True)
    o = linmodel.run_model(m, cfg)
    nrows = round(spec['steps'] / spec['store'])
    want_idx = [float(r * spec['store']) for r in range(nrows)]
    slope = 6.0 if spec['ext'] else 2.0
    if 'exc' in o:
        rec = {'D21': spec['steps'] == 5 and o['exc'] == 'IndexError',
               'D34': o['exc'] == 'ValueError' and 'Shape of passed values' in o['msg'],
               'D35': o['exc'] == 'IndexError' and '0-dimensional' in o['msg']}[spec['f']]
        return dict(as_recorded=rec, **o)
    if o['index'] == want_idx and all(r == [1.0 + slope * t] * n for r, t in zip(o['rows'], want_idx)):
        return dict(correct=True, **o)
    spacing = spec['steps'] / nrows
    return dict(as_recorded=(spec['f'] == 'D21' and o['index'] == [r * spacing for r in range(nrows)]), **o)


def replay(ctx, rec):
    c = rec['case']
    case = dict(m=c['model'], cfg=c['cfg'])
    obs = linmodel.run_model(case['m'], case['cfg'], **{k: v for k, v in c['variant'].items()})
    print(json.dumps(dict(observed=obs, expected=rec.get('expected')), indent=1))
    return 0 if obs == rec.get('expected') else 1
