"""C02 - all backends compute the same function for the same model.
spec/Backends.tla (primitives), spec/Solver.tla (solver variants), spec/Jacobian.tla (function set), spec/Wiring.tla"""
import json, random
from .. import tlc
from ..pool import run_cases
from .. import linmodel
from ..exprtree import ev
from . import solver_common as sc, c12

BACKENDS = ['torch', 'jax', 'fortran']


def call(func, args, t, y, backend):
    """evaluate a compiled vector field at (t, y) for any backend; returns a float64 numpy vector"""
    import numpy as np
    a = list(args[2:])
    if backend == 'torch':
        import torch
        out = func(torch.as_tensor(t), torch.as_tensor(np.asarray(y), dtype=args[1].dtype), *a)
        return np.asarray(out.detach().numpy() if hasattr(out, 'detach') else out, dtype='float64').ravel().copy()
    if backend == 'jax':
        import jax.numpy as jnp
        out = func(jnp.asarray(t), jnp.asarray(np.asarray(y), dtype=args[1].dtype), *a)
        return np.asarray(out, dtype='float64').ravel().copy()
    yy = np.asarray(y, dtype=np.asarray(args[1]).dtype).copy()
    out = func(t, yy, *a)
    if out is None:
        out = a[0]
    return np.asarray(out, dtype='float64').ravel().copy()


# ---------------------------------------------------------------- (a) trajectories per backend
def run_job(j):
    case, b = j['case'], j['backend']
    kw = {}
    if j.get('inplace') is False:
        kw['inplace_vectorfield'] = False
    if j.get('sweep'):      # the same model was simulated before in this process with other parameter values (a sweep)
        m0 = dict(case['m'], c=[v + 2 for v in case['m']['c']], x0=[v + 1 for v in case['m']['x0']])
        linmodel.run_model(m0, case['cfg'], scale=j['scale'], precision=j['precision'], backend=b, **kw)
    return linmodel.run_model(case['m'], case['cfg'], scale=j['scale'], precision=j['precision'], backend=b, **kw)


# ---------------------------------------------------------------- (b) function set per backend
def func_job(j):
    import numpy as np, warnings
    warnings.filterwarnings('ignore')
    m, b = j['m'], j['backend']
    try:
        f, fa, names, svm = c12.build(m).get_run_func('vf', 1e-3, vectorize=False, verbose=False, clear=False, in_place=False,
                                                      float_precision=j['precision'], backend=b, file_name=f'fn_{b}')
    except Exception as e:
        import traceback
        return dict(exc=type(e).__name__, msg=str(e)[:300], tb=traceback.format_exc()[-600:])
    if j.get('later'):      # another model is compiled for the same backend in the other precision before f is used
        try:
            c12.build(m, order=(1, 2, 0)).get_run_func('vf2', 1e-3, vectorize=False, verbose=False, clear=False, in_place=False,
                                                        float_precision={'float64': 'float32', 'float32': 'float64'}[j['precision']],
                                                        backend=b, file_name=f'fn2_{b}')
        except Exception as e:
            return dict(exc=type(e).__name__, msg=str(e)[:300], stage='later compile')
    pos = {}
    y0 = np.asarray(fa[1], dtype='float64').ravel()
    for v in c12.SV:
        hits = [int(k) for k in np.flatnonzero(np.abs(y0 - c12.Y0[v]) < 1e-6)]
        if len(hits) != 1:
            return dict(exc='Layout', msg=f'initial value of {v} at {hits} in {y0.tolist()}')
        pos[v] = hits[0]
    rng = random.Random(j['seed'])
    pts = []
    for _ in range(3):
        yv = {v: rng.choice([0.25, 0.5, 0.75, 1.0, 1.5, -0.5]) for v in c12.SV}
        y = np.zeros(3)
        for v in c12.SV:
            y[pos[v]] = yv[v]
        try:
            dy = call(f, fa, 0.0, y, b)
        except Exception as e:
            import traceback
            return dict(exc=type(e).__name__, msg=str(e)[:300], tb=traceback.format_exc()[-600:], stage='call')
        pts.append(dict(y=yv, dy=[float(dy[pos[v]]) for v in c12.SV]))
    return dict(points=pts)


# ---------------------------------------------------------------- index helpers on vector variables per backend
def index_job(j):
    """x' = -x + vsum(w*z) with z written through an index helper: z[k] = a*x (variable index), z[lit] = ..., ranges"""
    import numpy as np, warnings
    warnings.filterwarnings('ignore')
    from pyrates import OperatorTemplate, NodeTemplate, CircuitTemplate
    b, form, k = j['backend'], j['form'], j['k']
    z0 = [1.0, 2.0, 3.0, 4.0]; w = [0.5, -0.25, 0.75, 2.0]; a = 2.0
    if form == 'var':
        eqs = ["index(z, k) = a*x", "d/dt * x = -x + vsum(w*z)"]
    elif form == 'lit':
        eqs = [f"index(z, {k}) = a*x", "d/dt * x = -x + vsum(w*z)"]
    elif form == 'read':
        eqs = ["d/dt * x = -x + a*index(z, k) + index(w, k)"]
    else:
        eqs = [f"d/dt * x = -x + vsum(index_range(z, {k}, 4)*index_range(w, {k}, 4))"]
    variables = {'x': 'output(0.5)', 'a': a, 'k': k,
                 'z': {'vtype': 'variable' if form in ('var', 'lit') else 'constant', 'value': np.asarray(z0), 'shape': (4,), 'dtype': 'float'},
                 'w': {'vtype': 'constant', 'value': np.asarray(w), 'shape': (4,), 'dtype': 'float'}}
    variables = {n: v for n, v in variables.items() if any(n in e for e in eqs)}
    try:
        c = CircuitTemplate('net', nodes={'p': NodeTemplate('n', operators=[OperatorTemplate('op', equations=eqs, variables=variables)])})
        f, fa, names, svm = c.get_run_func('vf', 1e-3, vectorize=False, verbose=False, clear=False, in_place=False,
                                           float_precision='float64', backend=b, file_name=f'ix_{b}')
        x = 0.5
        dy = float(call(f, fa, 0.0, np.array([x]), b)[0])
    except Exception as e:
        import traceback
        return dict(exc=type(e).__name__, msg=str(e)[:300], tb=traceback.format_exc()[-500:])
    z = list(z0)
    if form in ('var', 'lit'):
        z[k] = a * x
        exp = -x + sum(wi * zi for wi, zi in zip(w, z))
    elif form == 'read':
        exp = -x + a * z[k] + w[k]
    else:
        exp = -x + sum(wi * zi for wi, zi in zip(w[k:4], z[k:4]))
    return dict(dy=dy, expected=exp)


# ---------------------------------------------------------------- (c) interpolation of inputs per backend (adaptive form)
def interp_job(j):
    import numpy as np, warnings
    warnings.filterwarnings('ignore')
    b = j['backend']
    u = j['u']
    n = len(u)
    m = dict(n=1, c=[0], a=[0], x0=[0], ext=[u], kind=[1], edges=[], sd=[dict(k=0, lag=0)])
    scale = j['scale']
    try:
        circ = linmodel.build(m, scale)
        inp = linmodel.inputs_of(m, scale)
        func, args, names, svm = circ.get_run_func('vf', scale, inputs=inp, vectorize=False, verbose=False, clear=False, in_place=False,
                                                   float_precision='float64', backend=b, solver='scipy', file_name=f'in_{b}')
        T = n * scale
        out = {}
        for h in range(-1, 2 * (n - 1) + 2):
            t = h * T / (2 * (n - 1))
            out[h] = float(call(func, args, t, np.zeros(1), b)[0]) * scale
        return dict(table=out)
    except Exception as e:
        import traceback
        return dict(exc=type(e).__name__, msg=str(e)[:300], tb=traceback.format_exc()[-600:])


def _all_vector(case):
    """the returned-array convention (inplace_vectorfield=False) needs vector-valued state variables only"""
    kinds = case['m']['kind']
    return case['cfg']['vec'] and all(kinds.count(k) >= 2 for k in set(kinds))


def run(ctx):
    tier = ctx.tier
    ctx.rule = ('spec/Backends.tla: every per-backend primitive (interpolation helper, addressing, ring-buffer shift) equals the reference '
                'on the whole lattice (TLC), each historic deviation violates it; conformance: (a) Solver.tla cases (C03/C08/C09 families) run '
                'through run(backend=torch|jax|fortran) in float32/float64, in-place and returned vector field, compared exactly with the '
                'expected rows (M), so two backends that are wrong in the same way are still caught; (b) Jacobian.tla models (products, '
                'powers, quotient, sin/cos/exp/tanh/sigmoid, algebraic intermediate) compiled per backend and compared with the evaluated '
                'trees; (c) the input interpolation of every backend on knots, midpoints and outside the range')
    ctx.assumptions += ['inplace_vectorfield=False only for models whose state variables are all vector-valued (scalar ones fail loudly in torch.cat / jnp.concatenate)',
                        'Fortran: vectorize=False only, a small number of compiled models per run (f2py costs ~6 s each)',
                        'torch does not support heun, jax does not support ring buffers: those requests must raise (C20) and are skipped here',
                        'tolerance: exact for integer models, 2e-5 (float32) / 1e-10 (float64) relative for the function set']
    # design
    for dev in (set(), {'TorchInterpNearest'}, {'FortranInterpBase'}, {'FortranSliceExclusive'}, {'CshiftSign'}):
        c = tlc.cfg(constants=dict(Dev=dev), invariants=['InterpRefines', 'IndexRefines', 'RollRefines'])
        r = tlc.run_tlc('Backends', c, workers=8, defs=dict(Samples='SampleSets(4, {1, 4, -2})'))
        ctx.add_tlc('primitives:' + ('/'.join(sorted(dev)) or 'design'), r, 'must hold' if not dev else 'must violate')
        if not dev and not r['ok']:
            ctx.spec_violation('primitives', r)
        if dev and r['violated'] is None:
            ctx.violation(dict(kind='spec', what=f'deviation {dev} not detected'))
    # (a)
    cases = sc.tlc_cases(ctx, 'C02-solver', 'C03Cases(6, 2) \\cup C08Cases({4}, {1, 2}) \\cup C09Cases(1, {0, 2, 3}, 6, {"euler", "heun"}, {<<1, 1, 2, 2>>})')
    rng = random.Random(ctx.seed); rng.shuffle(cases)
    jobs = []
    per = dict(torch=110, jax=110, fortran=14) if tier == 'quick' else dict(torch=1500, jax=1500, fortran=160)
    for b in BACKENDS:
        k = 0
        for case in cases:
            cfg = case['cfg']
            if b == 'torch' and cfg['solver'] == 'heun':
                continue
            if b == 'jax' and any(e['lag'] for e in case['m']['edges']) and cfg['solver'] in ('euler', 'heun'):
                continue
            if b == 'fortran' and cfg['vec']:
                continue
            if case.get('dev'):
                continue        # known findings of the default pipeline are judged in C03/C09
            if k >= per[b]:
                break
            k += 1
            jobs.append(dict(case=case, backend=b, scale=[1.0, 0.5][k % 2], precision=['float32', 'float64'][(k // 2) % 2],
                             inplace=(False if (k % 3 == 0 and b != 'fortran' and _all_vector(case)) else None),
                             sweep=(k % 4 == 1 and b != 'fortran')))
    outs = run_cases(run_job, jobs, timeout=900, nproc=12)
    verd = {}
    for j, o in zip(jobs, outs):
        if 'harness_error' in o:
            raise RuntimeError(f'replay failed: {o}')
        ctx.replayed += 1
        case = j['case']
        ctx.case(key=['run', j['backend'], case['m'], case['cfg'], j['scale'], j['precision'], j['inplace'], j.get('sweep')], nontrivial=True)
        if case['cfg']['solver'] == 'scipy':
            exp = linmodel.expected_rows(case, 'expM')
            ok = sc.same(o, exp, tol=1e-5)
        else:
            big = max([abs(x) for r in case['expM'] for x in r] + [0])
            if j['precision'] == 'float32' and big >= 2 ** 21:
                ok = sc.same(o, linmodel.expected_rows(case, 'expM'), tol=1e-5) or sc.same(o, linmodel.expected_rows(case, 'expA'), tol=1e-5)
            else:
                ok = sc.same(o, linmodel.expected_rows(case, 'expM')) or sc.same(o, linmodel.expected_rows(case, 'expA'))
        res = 'pass' if ok else 'violation'
        if not ok:
            ctx.violation(dict(kind='conformance', what=f"run(backend={j['backend']}) differs from the expected rows",
                               case=dict(model=case['m'], cfg=case['cfg'], backend=j['backend'], scale=j['scale'], precision=j['precision'], inplace=j['inplace']),
                               observed=o, expected=linmodel.expected_rows(case, 'expM')))
        verd[f"{j['backend']}:{res}"] = verd.get(f"{j['backend']}:{res}", 0) + 1
    # (b)
    c = tlc.cfg(constants={}, invariants=['Export'])
    r = tlc.run_tlc('Jacobian', c, workers=8, defs=dict(Models='ModelSet({1, 2, 3, 4, 5, 6, 7, 11, 13, 14, 15, 16}, {3, 6, 7, 13, 15}, {5, 11}, {16, 7})'))
    ctx.add_tlc('function-set', r, 'models over the documented function set (no delays)')
    models = [m for m in r['exports'].get('MODEL', []) if not m['delays']]
    rng.shuffle(models)
    fjobs = []
    perf = dict(default=40, torch=40, jax=40, fortran=8) if tier == 'quick' else dict(default=300, torch=300, jax=300, fortran=60)
    for b in ['default'] + BACKENDS:
        for k, m in enumerate(models[:perf[b]]):
            fjobs.append(dict(m=m, backend=b, precision=['float64', 'float32'][k % 2], seed=ctx.seed * 31 + k, later=(k % 4 == 0 and b != 'fortran')))      # one Fortran compile per process (D24)
    for j, o in zip(fjobs, run_cases(func_job, fjobs, timeout=900, nproc=12)):
        if 'harness_error' in o:
            raise RuntimeError(f'replay failed: {o}')
        ctx.replayed += 1
        ctx.case(key=['func', j['backend'], j['m']['eqs'], j['precision'], j.get('later')], nontrivial=True)
        case = dict(eqs=j['m']['eqs'], backend=j['backend'], precision=j['precision'])
        tol = 2e-5 if j['precision'] == 'float32' else 1e-10
        bad = None
        if 'exc' in o:
            bad = o
        else:
            for pt in o['points']:
                env = dict(pt['y']); env.update(c12.PAR); env['m'] = pt['y']['z'] * pt['y']['w']
                exp = [ev(j['m']['f'][i], env) for i in range(3)]
                if any(abs(a - e) > tol * (1 + abs(e)) for a, e in zip(pt['dy'], exp)):
                    bad = dict(point=pt, expected=exp); break
        res = 'pass' if bad is None else 'violation'
        if bad is not None:
            ctx.violation(dict(kind='conformance', what=f"vector field of backend {j['backend']} differs from the model", case=case, observed=bad))
        verd[f"func-{j['backend']}:{res}"] = verd.get(f"func-{j['backend']}:{res}", 0) + 1
    # index helpers
    xjobs = [dict(backend=b, form=f, k=k) for b in ['default'] + BACKENDS for f in ('var', 'lit', 'read', 'range') for k in ((0, 2, 3) if b != 'fortran' else (1, 3))]
    if tier == 'quick':
        xjobs = [x for x in xjobs if x['backend'] != 'fortran' or x['form'] in ('var', 'read')]
    for j, o in zip(xjobs, run_cases(index_job, xjobs, timeout=900, nproc=12)):
        ctx.replayed += 1
        ctx.case(key=['index', j['backend'], j['form'], j['k']], nontrivial=True)
        if j['backend'] == 'fortran' and j['form'] == 'read' and o.get('exc') == 'RuntimeError' and 'f2py compilation' in o.get('msg', '') and ctx.open_finding('D57'):
            ctx.known_hit('D57', dict(case=j, observed=o.get('msg', '')[:120]))
        elif 'exc' in o or abs(o['dy'] - o['expected']) > 1e-9:
            ctx.violation(dict(kind='conformance', what=f"index helper on backend {j['backend']}", case=j, observed=o))
    # (c)
    ijobs = [dict(backend=b, u=u, scale=s) for b in ['default'] + BACKENDS for u, s in (([2, 4, 8, 16, 32], 1.0), ([2, -4, 6, 0, 10, 12, 2, 4, 8], 0.5), ([5, 1, 3], 0.25))]
    for j, o in zip(ijobs, run_cases(interp_job, ijobs, timeout=900, nproc=12)):
        ctx.replayed += 1
        ctx.case(key=['interp', j['backend'], j['u'], j['scale']], nontrivial=True)
        u, n = j['u'], len(j['u'])
        exp = {}
        for h in range(-1, 2 * (n - 1) + 2):
            exp[h] = float(u[0]) if h <= 0 else float(u[-1]) if h >= 2 * (n - 1) else (float(u[h // 2]) if h % 2 == 0 else (u[(h - 1) // 2] + u[(h + 1) // 2]) / 2.0)
        if 'exc' in o or any(abs(o['table'][h] - exp[h]) > 1e-9 for h in exp):
            ctx.violation(dict(kind='conformance', what=f"input interpolation of backend {j['backend']}", case=dict(backend=j['backend'], u=u, scale=j['scale']),
                               observed=o, expected=exp))
    ctx.notes['verdicts'] = verd
    ctx.sample(dict(model=cases[0]['m'], cfg=cases[0]['cfg'], expected_rows=cases[0]['expM'][:3]))


def replay(ctx, rec):
    print(json.dumps(rec, indent=1, default=str)[:3000])
    return 1
