"""Shared machinery of the Solver.tla based checks (C03, C08, C09)."""
import json
from .. import tlc
from ..pool import run_cases
from .. import linmodel

INVS = ['IterateIsM', 'RowKIsStateAtK', 'FirstRowIsInit', 'RowCount', 'CallsPerStep', 'BufferHoldsPast',
        'FrozenEqualsAdvancedWithoutDelays', 'Export']
KNOWN_DEVS = ['UndelayedSiblingGetsOneStep', 'RollPerRhsCall']
FINDING_OF = {'UndelayedSiblingGetsOneStep': 'D06', 'RollPerRhsCall': 'D07'}


def tlc_cases(ctx, name, cases_expr, workers=8):
    """Design check with Dev = {} (P refines M) and export run with Dev = Known (P as the code is today)."""
    c0 = tlc.cfg(constants=dict(Dev=set()), invariants=[i for i in INVS if i != 'Export'])
    r0 = tlc.run_tlc('Solver', c0, workers=workers, defs=dict(Cases=cases_expr), mc_extends=['SolverCases'])
    ctx.add_tlc(f'design:{name}', r0, 'Dev={}: P refines M')
    if not r0['ok']:
        ctx.spec_violation(name, r0)
    c1 = tlc.cfg(constants=dict(Dev=set(KNOWN_DEVS)), invariants=['FirstRowIsInit', 'RowCount', 'CallsPerStep', 'Export'])
    r1 = tlc.run_tlc('Solver', c1, workers=1, defs=dict(Cases=cases_expr), mc_extends=['SolverCases'], coverage=False)
    ctx.add_tlc(f'export:{name}', r1, 'Dev=Known: behaviours with expM / expP')
    if not r1['ok']:
        ctx.spec_violation(name + ':known', r1)
    return r1['exports'].get('BEH', [])


def vacuity(ctx, cases_expr, dev, expect=True):
    c = tlc.cfg(constants=dict(Dev={dev}), invariants=[i for i in INVS if i != 'Export'])
    r = tlc.run_tlc('Solver', c, workers=4, defs=dict(Cases=cases_expr), mc_extends=['SolverCases'])
    ctx.add_tlc(f'vacuity:{dev}', r, 'the deviation must violate a design invariant')
    if expect and r['violated'] is None:
        ctx.violation(dict(kind='spec', what=f'deviation {dev} is not detected by the design invariants (vacuous)'))
    return r['violated']


def close(a, b, tol):
    if len(a) != len(b):
        return False
    for x, y in zip(a, b):
        if len(x) != len(y):
            return False
        for u, v in zip(x, y):
            if u != v and abs(u - v) > tol * max(1.0, abs(v)):
                return False
    return True


def same(obs, exp, tol=0.0):
    if 'exc' in obs:
        return False
    return close([obs['index']], [exp['index']], tol) and close(obs['rows'], exp['rows'], tol)


def judge(ctx, case, variant, obs, what, tol=0.0):
    """Compare with M (either admissible second-stage semantics), then with P(Known)."""
    expM = linmodel.expected_rows(case, 'expM')
    expA = linmodel.expected_rows(case, 'expA')
    if same(obs, expM, tol) or same(obs, expA, tol):
        return 'pass'
    expP = linmodel.expected_rows(case, 'expP')
    devs = case.get('dev') or []
    rec = dict(model=case['m'], cfg=case['cfg'], variant=variant)
    if devs and same(obs, expP, tol):
        # observed equals what the deviating model predicts: a known finding if every fired deviation is listed
        fids = [FINDING_OF[d] for d in devs]
        if all(ctx.open_finding(f) for f in fids):
            for f in fids[:1]:
                ctx.known_hit(f, dict(case=rec, observed=obs, expected=expM))
            return 'known'
    ctx.violation(dict(kind='conformance', what=what, case=rec, observed=obs, expected=expM, predicted=expP, dev=devs))
    return 'violation'
