"""C16 - Population/Connectivity equals the explicit node-and-edge network.   spec/Wiring.tla + WiringCases!Expand"""
import json
from ..pool import run_cases
from .. import netmodel as nm
from . import c01


def job(j):
    p, form = j['p'], j['form']
    if form == 'pop':
        return nm.compile_circuit(nm.build_population(p['prog']), p['sv'], True)
    if form == 'pop_twice':
        return nm.compile_circuit_twice(nm.build_population(p['prog']), p['sv'], True)
    if form == 'matrix':
        return nm.compile_circuit(nm.build_explicit_from_matrix(p['prog']), p['sv'], j['vec'])
    return nm.compile_prog(dict(nodes=p['prog']['nodes'], edges=p['prog']['edges']), p['sv'], j['vec'])


def run(ctx):
    tier = ctx.tier
    ctx.rule = ('TLC expands every population circuit of C16Progs (1-3 populations of 1-3 (quick) / 1-4 units, recurrent and '
                'feed-forward, non-square signed sparse weight matrices, scalar (global) weights, per-unit parameters, coupling '
                'edge "pre" (3*source) and "diff" (source - target, evaluated per (target, source) pair), two connections '
                'converging on one variable, two scalar weights converging on one variable, two coupling edges of one template that differ '
                'in a constant only) into nodes and scalar edges and exports Denote of the expansion; the '
                'PopulationTemplate/Connectivity circuit, the add_edges_from_matrix circuit and the edge-by-edge circuit are '
                'compiled and their probed fields compared exactly with it')
    ctx.assumptions += ['input defaults are 0 in these programs (a unit without incoming non-zero entry receives 0 either way)',
                        'delays / spread on Connectivity objects are compared as trajectories in C09 / C11',
                        'the "diff" coupling is compared with the meaning only (no explicit-edge form with a target-side input exists in the harness)']
    progs = c01.tlc_programs(ctx, 'populations', 'C16Progs({1, 2, 3})' if tier == 'quick' else 'C16Progs({1, 2, 3, 4})')
    jobs = []
    for p in progs:
        cpls = {c['cpl'] for c in p['pop']['conns']}
        jobs.append(dict(p=p, form='pop', vec=True))
        if len(jobs) % 5 == 0:
            jobs.append(dict(p=p, form='pop_twice', vec=True))
        if 'diff' not in cpls and 'pre2' not in cpls and 'pre6' not in cpls:
            jobs.append(dict(p=p, form='matrix', vec=True))
            jobs.append(dict(p=p, form='matrix', vec=False))
            if tier == 'thorough':
                jobs.append(dict(p=p, form='edges', vec=True))
    outs = run_cases(job, jobs, timeout=300)
    verd = {}
    for j, o in zip(jobs, outs):
        if 'harness_error' in o:
            raise RuntimeError(f'replay failed: {o}')
        ctx.replayed += 1
        ctx.case(key=[j['p']['pop'], j['form'], j['vec']], nontrivial=any(pp['n'] > 1 for pp in j['p']['pop']['pops']))
        exp = nm.expected_field(j['p'])
        if 'field' in o and o['field'] == exp and o.get('affine'):
            r = 'pass'
        else:
            r = classify(ctx, j, o, exp)
        verd[f"{j['form']}:{r}"] = verd.get(f"{j['form']}:{r}", 0) + 1
    ctx.notes['verdicts'] = verd
    # delays on Connectivity objects mean the same as on scalar edges: trajectories of the population form (Solver.tla)
    from . import solver_common as sc, c09
    dcases = sc.tlc_cases(ctx, 'C16delay', 'C09PopCases(%d, {0, 2, 3}, 6, {"euler"}, {<<1, 1, 2, 2>>, <<1, 2, 3, 3>>})' % (1 if tier == 'quick' else 2))
    djobs = [dict(case=c, variant=c09.VARIANTS[k % len(c09.VARIANTS)]) for k, c in enumerate(dcases)]
    for dj, o in zip(djobs, run_cases(c09.job, djobs, timeout=300)):
        if 'harness_error' in o:
            raise RuntimeError(f'replay failed: {o}')
        ctx.replayed += 1
        ctx.case(key=['delay', dj['case']['m']['edges'], dj['case']['m']['kind'], dj['variant']],
                 nontrivial=any(e['lag'] for e in dj['case']['m']['edges']))
        sc.judge(ctx, dj['case'], dj['variant'], o, 'delayed Connectivity trajectories vs delayed recurrence')
    ctx.sample(dict(pop=progs[len(progs) // 2]['pop'], field=progs[len(progs) // 2]['field'][:3]))


def classify(ctx, j, o, exp):
    pops = j['p']['pop']['pops']
    conns = j['p']['pop']['conns']
    # known finding D27: Connectivity onto a population with a single unit fails loudly at call time
    if j['form'] in ('pop', 'pop_twice') and o.get('exc') in ('ValueError', 'IndexError') and ctx.open_finding('D27') and \
            any(pops[c['tp'] - 1]['n'] == 1 or pops[c['sp'] - 1]['n'] == 1 for c in conns):
        ctx.known_hit('D27', dict(case=j['p']['pop'], observed=o.get('msg')))
        return 'known'
    ctx.violation(dict(kind='conformance', what=f"{j['form']} form vs Denote of the expansion",
                       case=dict(pop=j['p']['pop'], form=j['form'], vec=j['vec'], prog=j['p']['prog'], sv=j['p']['sv']),
                       observed={k: o[k] for k in o if k != 'args'}, expected=exp))
    return 'violation'


def replay(ctx, rec):
    c = rec['case']
    o = run_cases(job, [dict(p=dict(prog=c['prog'], sv=c['sv'], pop=c['pop']), form=c['form'], vec=c['vec'])])[0]
    print(json.dumps(dict(observed=o, expected=rec.get('expected')), indent=1, default=str))
    return 1
