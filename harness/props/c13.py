"""C13 - results do not depend on what the process did before.   spec/Api.tla"""
import json
from . import api_common as ac
from .. import apiuniverse as au

CALLS = ['compile', 'compile_nv', 'update_var', 'clear_frontend_caches', 'call_earlier', 'to_yaml', 'collect_edges', 'from_yaml',
         'clear_model', 'decorator', 'input']


def run(ctx):
    tier = ctx.tier
    ctx.rule = ('TLC explores every history of <= 2 public calls (thorough: all flag combinations) plus sampled histories of depth 4 (6) over a fixed universe that contains '
                'every collision C13 names (two operators with one name, one NodeTemplate object used by two circuits, two '
                'operators of equal structure, compiles with/without clear and vectorize); one behaviour per distinct abstract '
                'state whose last call returns a function; each is replayed in one fresh process and the linear field of the '
                'returned function is compared exactly with the meaning of the template; non-trivial = at least 2 calls.  A second '
                'exploration follows the circuit loaded from a YAML file through from_yaml / update_var / compile (clear, decorator) / '
                'clear(model) to depth 6 with one behaviour per abstract state AND sequence of (call kind, clear flag), i.e. path '
                'coverage of template_cache and of clear(); compiles with a user decorator must yield the decorated field of '
                'their own model')
    ctx.assumptions += ['in_place=False in every compile (in_place=True consumes the template: documented)',
                        'default backend; the Fortran extension-module staleness (D24) is covered by a pinned reproducer only',
                        'the observable is the linear vector field probed on unit vectors plus the initial state']
    behs = ac.dedupe(ac.tlc_behaviours(ctx, 'C13', CALLS, 2,      # thorough: no FewFlags constraint, deeper sampling (depth-3 exhaustive explodes with this universe)
                                      
                                       simulate=(250, 4) if tier == 'quick' else (3000, 6),
                                       extra=['FewFlags'] if tier == 'quick' else []))
    cy = ac.tlc_behaviours_cy(ctx, 6, plain=True)
    if tier == 'thorough':       # vectorised / decorated compiles of the YAML circuit to depth 5
        cy = ac.dedupe(cy + ac.tlc_behaviours_cy(ctx, 5, plain=False))
    ctx.notes['yaml_circuit_behaviours'] = len(cy)
    targeted = list(cy)
    if tier == 'thorough':       # a circuit and its derivative (quick tier: C07)
        targeted += ac.tlc_behaviours_pair(ctx, 4)
    ctx.notes['deviations_detected_by'] = {d: ac.vacuity(ctx, CALLS, d) for d in ('OpCacheKeyedByName', 'NodeCacheSurvives', 'StateStash')}
    ctx.notes['deviations_detected_by'].update({d: ac.vacuity(ctx, ac.CY_CALLS, d, maxlen=4) for d in ('TemplateCacheByPath', 'ClearSkipsWhenNoIR')})
    ac.judge_all(ctx, behs, 'compiled model after a history of API calls', cap=1800 if ctx.tier == "quick" else 8000, always=targeted)
    ac.pinned_d09(ctx)
    for b in behs[len(behs) // 2: len(behs) // 2 + 2]:
        ctx.sample(dict(calls=b['calls'], expected_units=b['expM'], dev=b['dev']))


def replay(ctx, rec):
    o = au.replay(rec['case'])
    print(json.dumps(dict(observed=o, expected=rec.get('expected')), indent=1, default=str))
    return 0 if o.get('units') == rec.get('expected') else 1
