"""C04 - vectorization does not change the model.   spec/Wiring.tla (Denote), spec/WiringCases.tla (C04Progs)"""
import json, random
from .. import tlc
from ..pool import run_cases
from .. import netmodel as nm
from . import c01


def job(j):
    p, v = j['p'], j['variant']
    kw = {}
    if v.get('sparseness') is not None:
        kw['matrix_sparseness'] = v['sparseness']
    prog = p['prog']
    if v.get('wscale'):
        prog = dict(prog, edges=[dict(e, w=e['w'] * v['wscale']) for e in prog['edges']])
    return nm.compile_prog(prog, p['sv'], v['vec'], hier=v.get('hier', 0), eqform=v.get('eqform', 0), **kw)


def run(ctx):
    tier = ctx.tier
    ctx.rule = ('programs of C01 with >= 2 nodes of one kind, plus populations of 4-12 structurally identical / alternating nodes '
                'with one-to-one permutation coupling (identity, shifts, permuted interior, pair swaps) and dense / sparse block '
                'patterns; each compiled with vectorize=True and False (and matrix_sparseness 0.1 / 0.5, weights scaled by 2^-40) '
                'and both fields compared exactly with Denote (layer M), hence with each other; non-trivial = some kind has >= 2 nodes')
    ctx.assumptions += ['trajectory equality follows from field equality for the undelayed programs; delayed edges with and without '
                        'vectorisation are compared as trajectories in C09',
                        'known finding D42 (non-zero input defaults of untargeted merged nodes) excluded from vectorised runs, pinned in C01']
    progs = c01.tlc_programs(ctx, 'populations', 'C04Progs({4, 10, 12})' if tier == 'quick' else 'C04Progs({3, 4, 5, 10, 11, 12})')
    small = c01.tlc_programs(ctx, 'two-nodes', 'Programs({"L", "P", "S"}, 2, 2, 2, {FALSE, TRUE})')
    small = [p for p in small if len({n['kind'] for n in p['prog']['nodes']}) == 1]
    rng = random.Random(ctx.seed)
    rng.shuffle(small)
    progs += small[:150 if tier == 'quick' else 3000]
    refs = c01.tlc_programs(ctx, 'ref-edges', 'RefProgs({3, 4}, {<<"L">>, <<"L", "S">>})' if tier == 'thorough' else 'RefProgs({3}, {<<"L">>, <<"L", "S">>})', workers=8)
    rng.shuffle(refs)
    progs += refs[:120 if tier == 'quick' else 3000]
    ctx.notes['programs'] = len(progs)
    jobs = []
    for k, p in enumerate(progs):
        vs = [dict(vec=False), dict(vec=True), dict(vec=True, sparseness=0.5)]
        if len(p['prog']['edges']) >= 2 and not any(e.get('ref') for e in p['prog']['edges']):
            vs += [dict(vec=True, wscale=2.0 ** -40), dict(vec=False, wscale=2.0 ** -40)]
        if tier == 'thorough':
            vs += [dict(vec=True, sparseness=0.02), dict(vec=True, hier=1)]
        for v in vs:
            if v['vec'] and p['d42'] and ctx.open_finding('D42'):
                continue
            if not v['vec'] and p['d43']:
                continue
            if v['vec'] and p.get('d61') and ctx.open_finding('D61'):
                continue
            jobs.append(dict(p=p, variant=dict(v, eqform=k % 4)))
    outs = run_cases(job, jobs, timeout=300)
    verd = {}
    for j, o in zip(jobs, outs):
        if 'harness_error' in o:
            raise RuntimeError(f'replay failed: {o}')
        ctx.replayed += 1
        ctx.case(key=[j['p']['prog'], j['variant']], nontrivial=True)
        p = j['p']
        if j['variant'].get('wscale'):
            p = scale_expected(p, j['variant']['wscale'])
        if d62_class(p, j['variant']) and o.get('exc') == 'IndexError' and 'invalid index to scalar' in (o.get('msg') or '') and ctx.open_finding('D62'):
            ctx.known_hit('D62', dict(case=dict(prog=p['prog'], variant=j['variant']), observed=o.get('msg')))
            verd['known'] = verd.get('known', 0) + 1
            continue
        r = c01.judge(ctx, p, j['variant'], o, 'compiled field (vectorize on/off) vs Denote')
        verd[r] = verd.get(r, 0) + 1
    ctx.notes['verdicts'] = verd
    ctx.sample(dict(prog=progs[0]['prog'], field=progs[0]['field'][:3]))


def d62_class(p, v):
    """vectorised, index-based projection (matrix_sparseness raised), and a templated edge whose source node or referenced node is alone in its kind"""
    kinds = [n['kind'] for n in p['prog']['nodes']]
    return bool(v.get('vec') and v.get('sparseness') and any(e.get('ref') and (kinds.count(kinds[e['ref'] - 1]) == 1 or kinds.count(kinds[e['s'] - 1]) == 1)
                                                              for e in p['prog']['edges']))


def scale_expected(p, ws):
    """Denote with every edge weight multiplied by ws: coefficients are affine in the weights; recompute from the program."""
    sv = p['sv']
    idx = {(s['n'], s['v']): i for i, s in enumerate(sv)}
    rows = []
    for i, s in enumerate(sv):
        n = p['prog']['nodes'][s['n'] - 1]
        coef = [0.0] * len(sv); const = 0.0
        if s['v'] == 'z':
            coef[i] = -2.0
        elif s['v'] == 'q':
            coef[i] = -3.0
        else:
            coef[i] += n['a']; const += n['c']
            for tv, gain, dflt in (('u', 1.0, n['du']), ('v', 10.0, n['dv'])):
                es = [e for e in p['prog']['edges'] if e['t'] == s['n'] and e['tv'] == tv]
                has = bool(es) or (tv == 'u' and n['kind'] in ('P', 'Q'))
                for e in es:
                    coef[idx[(e['s'], e['sv'])]] += gain * e['w'] * ws * (3 if e['tm'] else 1)
                if tv == 'u' and n['kind'] in ('P', 'Q'):
                    coef[idx[(s['n'], 'z')]] += gain * 3
                if not has:
                    const += gain * dflt
        rows.append(dict(coef=coef, const=const))
    return dict(p, field=rows)


def replay(ctx, rec):
    c = rec['case']
    o = run_cases(job, [dict(p=dict(prog=c['prog'], sv=c['sv']), variant=c['variant'])])[0]
    print(json.dumps(dict(observed=o, expected=rec.get('expected')), indent=1, default=str))
    return 1
