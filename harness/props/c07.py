"""C07 - parameter and initial-value overrides reach exactly their targets.   spec/Api.tla"""
import json
from . import api_common as ac
from .. import apiuniverse as au

CALLS = ['compile', 'compile_nv', 'update_var', 'update_edge', 'zero']


def run(ctx):
    tier = ctx.tier
    ctx.rule = ('TLC explores every history of <= 3 (quick) / 4 (thorough) calls from {update_var (single node, all, scalar, '
                'per-node array, value 0; rate constant and initial value), update_var(edge_vars), get_run_func(node_values=...) with '
                'single-node, all/ scalar and all/ per-node array values (also 0), '
                'get_run_func} over a universe in which NodeTemplate and OperatorTemplate objects are shared between nodes and '
                'circuits; the action properties OnlyAddressedChange / EdgeOverrideOnlyItsEdge are checked on every step; each '
                'distinct abstract state reached by a compile is replayed and the compiled field/initial state compared exactly')
    ctx.assumptions += ['node-template constructor overrides are part of the fixed universe (t3: k, t4: x0)',
                        'in_place=False compiles; second compiles of one template are subject to known finding D40']
    behs = ac.dedupe(ac.tlc_behaviours(ctx, 'C07', CALLS, 2 if tier == 'quick' else 3,
                                       simulate=(120, 4) if tier == 'quick' else (3000, 7),
                                       extra=['ClearingCompiles'] if tier == 'quick' else [],
                                       circs={'c1', 'c3'} if tier == 'quick' else {'c1', 'c2', 'c3'}))
    pair = ac.tlc_behaviours_pair(ctx, 4 if tier == 'quick' else 5)
    ctx.notes['derived_circuit_behaviours'] = len(pair)
    ctx.notes['deviations_detected_by'] = {d: ac.vacuity(ctx, CALLS, d) for d in ('UpdateVarNoCopy', 'ApplyWritesVariations')}
    ctx.notes['deviations_detected_by']['UpdateVarInPlaceWhenPrivate'] = ac.vacuity(ctx, ac.PAIR_CALLS, 'UpdateVarInPlaceWhenPrivate', maxlen=4)
    ctx.notes['deviations_detected_by']['DerivedSharesEdgeDicts'] = ac.vacuity(ctx, ac.PAIR_CALLS, 'DerivedSharesEdgeDicts', maxlen=3)
    behs = [b for b in behs if any(c['a'] in ('update_var', 'update_edge', 'compile_nv') for c in b['calls'])]
    ac.judge_all(ctx, behs, 'compiled model after overrides', cap=2600 if ctx.tier == "quick" else 30000, always=pair)
    for b in behs[len(behs) // 2: len(behs) // 2 + 2]:
        ctx.sample(dict(calls=b['calls'], expected_units=b['expM'], dev=b['dev']))


def replay(ctx, rec):
    o = au.replay(rec['case'])
    print(json.dumps(dict(observed=o, expected=rec.get('expected')), indent=1, default=str))
    return 1
