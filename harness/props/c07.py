"""C07 - parameter and initial-value overrides reach exactly their targets.   spec/Api.tla"""
import json
from . import api_common as ac
from .. import apiuniverse as au
from ..pool import run_cases

CALLS = ['compile', 'compile_nv', 'update_var', 'update_edge', 'zero']


def run(ctx):
    tier = ctx.tier
    ctx.rule = ('TLC explores every history of <= 2 calls (quick: clearing compiles, circuits c1/c3; thorough: all compile variants, c1/c2/c3), sampled histories of depth 4 (7) from {update_var (single node, all, scalar, '
                'per-node array, value 0; rate constant and initial value), update_var(edge_vars), get_run_func(node_values=...) with '
                'single-node, all/ scalar and all/ per-node array values (also 0), '
                'get_run_func} over a universe in which NodeTemplate and OperatorTemplate objects are shared between nodes and '
                'circuits; the action properties OnlyAddressedChange / EdgeOverrideOnlyItsEdge are checked on every step; each '
                'distinct abstract state reached by a compile is replayed and the compiled field/initial state compared exactly')
    ctx.assumptions += ['node-template constructor overrides are part of the fixed universe (t3: k, t4: x0)',
                        'in_place=False compiles; second compiles of one template are subject to known finding D40']
    behs = ac.dedupe(ac.tlc_behaviours(ctx, 'C07', CALLS, 2,      # thorough: the same bound without the quick-tier constraints, more circuits, deeper sampling
                                      
                                       simulate=(120, 4) if tier == 'quick' else (1200, 6),
                                       extra=['ClearingCompiles'] if tier == 'quick' else [],
                                       circs={'c1', 'c3'} if tier == 'quick' else {'c1', 'c2', 'c3'}))
    pair = ac.tlc_behaviours_pair(ctx, 4)       # depth 5 yields tens of thousands of behaviours (a replay costs ~2 s CPU)
    ctx.notes['derived_circuit_behaviours'] = len(pair)
    ctx.notes['deviations_detected_by'] = {d: ac.vacuity(ctx, CALLS, d) for d in ('UpdateVarNoCopy', 'ApplyWritesVariations')}
    ctx.notes['deviations_detected_by']['UpdateVarInPlaceWhenPrivate'] = ac.vacuity(ctx, ac.PAIR_CALLS, 'UpdateVarInPlaceWhenPrivate', maxlen=4)
    ctx.notes['deviations_detected_by']['DerivedSharesEdgeDicts'] = ac.vacuity(ctx, ac.PAIR_CALLS, 'DerivedSharesEdgeDicts', maxlen=3)
    behs = [b for b in behs if any(c['a'] in ('update_var', 'update_edge', 'compile_nv') for c in b['calls'])]
    ac.judge_all(ctx, behs, 'compiled model after overrides', cap=2600 if ctx.tier == "quick" else 4500, always=pair)
    shared_subcircuit(ctx)
    for b in behs[len(behs) // 2: len(behs) // 2 + 2]:
        ctx.sample(dict(calls=b['calls'], expected_units=b['expM'], dev=b['dev']))


def _shared_sub_job(updates):
    """one sub-circuit template object used under two names of a parent; overrides must reach the addressed place only"""
    import numpy as np, warnings
    warnings.filterwarnings('ignore')
    from pyrates import OperatorTemplate, NodeTemplate, CircuitTemplate
    op = OperatorTemplate('op', equations=["x' = -k*x"], variables={'x': 'output(1.0)', 'k': 2.0})
    n = NodeTemplate('n', operators=[op])
    sub = CircuitTemplate('sub', nodes={'a': n, 'b': n})
    top = CircuitTemplate('top', circuits={'s1': sub, 's2': sub})
    if updates and updates[0][0] == 'DEEP':      # three levels: one mid-level circuit object at two places of the top circuit
        leaf = CircuitTemplate('leaf', nodes={'a': n})
        mid = CircuitTemplate('mid', circuits={'c1': leaf, 'c2': leaf})
        top = CircuitTemplate('top', circuits={'s1': mid, 's2': mid})
        updates = updates[1:]
    try:
        for path, val in updates:
            top.update_var(node_vars={path + '/op/k': np.array(val) if isinstance(val, list) else float(val)})
        f, a, names, svm = top.get_run_func('vf', 1e-3, vectorize=False, verbose=False, clear=True, in_place=False, float_precision='float64')
        dy = np.asarray(f(0, np.ones(4), *a[2:]), dtype='float64')
        return {k.rsplit('/', 2)[0]: float(-dy[int(np.ravel(v)[0])]) for k, v in svm.items()}
    except Exception as e:
        return dict(exc=type(e).__name__, msg=str(e)[:200])


def shared_subcircuit(ctx):
    scen = [[('s1/a', 9)], [('s2/b', 7)], [('all/a', [11, 12])], [('s1/all', [5, 6])], [('s1/a', 9), ('s2/a', 4)], [('all/all', 3), ('s2/b', 8)],
            [('DEEP', 0), ('s1/c1/a', 9)], [('DEEP', 0), ('s2/c2/a', 7), ('s1/c2/a', 5)], [('DEEP', 0), ('all/c1/a', [11, 12])]]
    nodes2 = ['s1/a', 's1/b', 's2/a', 's2/b']
    nodes3 = ['s1/c1/a', 's1/c2/a', 's2/c1/a', 's2/c2/a']
    def matches(pat, node):
        return all(p == 'all' or p == q for p, q in zip(pat.split('/'), node.split('/')))
    for sc, o in zip(scen, run_cases(_shared_sub_job, scen, timeout=120)):
        ctx.case(key=['shared-subcircuit', sc]); ctx.replayed += 1
        deep = sc[0][0] == 'DEEP'
        nodes = nodes3 if deep else nodes2
        exp = {nd: 2.0 for nd in nodes}
        for pat, val in (sc[1:] if deep else sc):
            hit = [nd for nd in nodes if matches(pat, nd)]
            for i, nd in enumerate(hit):
                exp[nd] = float(val[i]) if isinstance(val, list) else float(val)
        if o != exp:
            ctx.violation(dict(kind='conformance', what='override through a path into a sub-circuit object that is used twice', case=sc, observed=o, expected=exp))


def replay(ctx, rec):
    o = au.replay(rec['case'])
    print(json.dumps(dict(observed=o, expected=rec.get('expected')), indent=1, default=str))
    return 1
