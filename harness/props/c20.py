"""C20 - unsupported requests fail loudly instead of returning numbers.   spec/Guards.tla"""
import json
from .. import tlc
from ..pool import run_cases


def build(rq):
    """Base model: two nodes, each  x' = -2*x + u (+ delayed self term for delay='past'); edge n1 -> n2."""
    import numpy as np
    from pyrates import OperatorTemplate, NodeTemplate, CircuitTemplate
    df = rq['defect']
    eq = "x' = -a*x + u + ext"
    variables = {'x': 'output(1.0)', 'a': 2.0, 'u': 'input(0.0)', 'ext': 'input(0.0)'}
    if rq['delay'] == 'past':
        eq = "x' = -a*x + u + ext + k*past(x, tau)"
        variables['tau'] = 0.004
        variables['k'] = -0.5
    if df.startswith('reserved:'):
        nm = df.split(':', 1)[1]
        eq = eq.replace('a*x', nm + '*x'); variables[nm] = variables.pop('a')
    if df == 'reserved_name':
        eq = eq.replace('a*x', 'beta*x'); variables['beta'] = variables.pop('a')
    if df == 'undeclared_var':
        eq = eq + ' + zz'
    if df == 'two_outputs':
        variables['a'] = 'output(2.0)'
    op = OperatorTemplate('op', equations=[eq], variables=variables)
    if rq.get('form') == 'pop':
        return build_pop(rq, op)
    ops = [op]
    if df == 'undeclared_var_declared_by_sibling_op':
        # a second, independent operator of the same node uses `a`, which only the first operator declares
        ops = [op, OperatorTemplate('op2', equations=["w' = -a*w"], variables={'w': 'output(1.0)'})]
    if df == 'undeclared_var_declared_by_later_sibling_op':
        ops = [OperatorTemplate('op0', equations=["w' = -a*w"], variables={'w': 'output(1.0)'}), op]
    if df == 'cyclic_ops':
        oa = OperatorTemplate('oa', equations=["m = n + 1.0"], variables={'m': 'output(0.0)', 'n': 'input(0.0)'})
        ob = OperatorTemplate('ob', equations=["n = 2.0*m"], variables={'n': 'output(0.0)', 'm': 'input(0.0)'})
        ops = [oa, ob, op]
    nodes = {'n1': NodeTemplate('n1', operators=ops), 'n2': NodeTemplate('n2', operators=ops)}
    attr = {'weight': 3.0}
    if rq['delay'] == 'edge':
        attr['delay'] = 0.004
    if rq['delay'] == 'gamma':
        attr.update(delay=0.004, spread=0.002)
    src, tgt = 'n1/op/x', 'n2/op/u'
    if df == 'edge_missing_source_node':
        src = 'nX/op/x'
    if df == 'edge_missing_source_var':
        src = 'n1/op/xx'
    if df == 'edge_missing_target_var':
        tgt = 'n2/op/uu'
    edges = [(src, tgt, None, attr)]
    if rq['delay'] == 'mixed':      # a plain discrete delay and a distributed delay in one network
        edges = [('n1/op/x', 'n2/op/u', None, {'weight': 3.0, 'delay': 0.004}),
                 ('n2/op/x', 'n1/op/u', None, {'weight': 1.0, 'delay': 0.004, 'spread': 0.002})]
    if df == 'edge_template_two_outputs':      # two terminal operators of one edge template declare the same output variable
        from pyrates import EdgeTemplate
        e1 = OperatorTemplate('e1', equations=['m = 2.0*r_src'], variables={'m': 'output(0.0)', 'r_src': 'input(0.0)'})
        e2 = OperatorTemplate('e2', equations=['m = 5.0*r_src'], variables={'m': 'output(0.0)', 'r_src': 'input(0.0)'})
        edges = [('n1/op/x', 'n2/op/u', EdgeTemplate('et2', operators=[e1, e2]), {'weight': 3.0})]
    if 'sibling_op' in df:          # no edge: the sibling operators stay in one layer of the operator graph on every node
        edges = []
    if rq['delay'] == 'mixed2':     # the distributed delay is processed first
        edges = [('n1/op/x', 'n2/op/u', None, {'weight': 1.0, 'delay': 0.004, 'spread': 0.002}),
                 ('n2/op/x', 'n1/op/u', None, {'weight': 3.0, 'delay': 0.004})]
    return CircuitTemplate('net', nodes=nodes, edges=edges)


def build_pop(rq, op):
    """The same requests in PopulationTemplate / Connectivity form: two populations of two units."""
    import numpy as np
    from pyrates import NodeTemplate, CircuitTemplate
    from pyrates.frontend.template.population import PopulationTemplate, Connectivity
    node = NodeTemplate('pn', operators=[op])
    pops = {'n1': PopulationTemplate('n1', node, 2), 'n2': PopulationTemplate('n2', node, 2)}
    W = np.array([[3.0, 0.0], [1.0, 2.0]])
    disc = dict(delays=0.004)
    gam = dict(delays=0.004, spread=0.002)
    kinds = {'edge': [disc], 'gamma': [gam], 'mixed': [disc, gam], 'mixed2': [gam, disc]}[rq['delay']]
    ends = [('n1/op/x', 'n2/op/u'), ('n2/op/x', 'n1/op/u')]
    conns = [Connectivity(s, t, W, **kw) for (s, t), kw in zip(ends, kinds)]
    return CircuitTemplate('net', populations=pops, connections=conns)


def job(rq):
    import numpy as np, warnings, os
    df = rq['defect']
    caught = []
    with warnings.catch_warnings(record=True) as wlist:
        warnings.simplefilter('always')
        try:
            circ = build(rq)
            kw = dict(backend=rq['backend'], vectorize=rq['vec'], verbose=False, clear=True, in_place=False)
            inputs = None
            if df == 'input_missing_var':
                inputs = {'n1/op/extt': np.zeros(20)}
            if df == 'input_missing_node':
                inputs = {'nX/op/ext': np.zeros(20)}
            if df == 'update_missing_var':
                circ.update_var(node_vars={'n1/op/aa': 1.0})
            if df == 'value_missing_op':
                kw['node_values'] = {'n1/nop/a': 1.0}
            if df == 'value_missing_var_second_node':      # a misspelt variable on a node that is not the first of its vectorised group
                kw['node_values'] = {'n2/op/aa': 1.0}
            if df == 'value_missing_op_all':
                kw['node_values'] = {'all/nop/a': 1.0}
            if df == 'nodevalue_missing_node':
                kw['node_values'] = {'nX/op/a': 1.0}
            outputs = {'o': 'all/op/x'}
            if df == 'output_missing_node':
                outputs = {'o': 'nX/op/x'}
            if df == 'output_missing_var':
                outputs = {'o': 'n1/op/xx'}
            if rq['call'] == 'run':
                res = circ.run(0.02, 0.001, inputs=inputs, outputs=outputs, solver=rq['solver'], **kw)
                n = int(np.asarray(res.values).size)
                out = dict(outcome='returned', size=n)
            elif rq['call'] == 'func':
                f, a, names, svm = circ.get_run_func('vf', 0.001, inputs=inputs, solver=rq['solver'], **kw)
                out = dict(outcome='returned')
            else:
                f, a, names, svm = circ.get_jacobian_func('jf', 0.001, solver=rq['solver'], sparse=rq['sparse'], **kw)
                out = dict(outcome='returned')
        except Exception as e:
            import traceback
            out = dict(outcome='raised', exc=type(e).__name__, msg=str(e)[:200], tb=traceback.format_exc()[-500:])
        out['warned'] = [f'{w.category.__name__}: {str(w.message)[:80]}' for w in wlist
                         if 'PyRates' in w.category.__name__ or issubclass(w.category, UserWarning)]
    return out


def run(ctx):
    tier = ctx.tier
    ctx.rule = ('the full request matrix backend x call x solver x vectorize x delay kind x sparse flag (finite, exhaustive) and every '
                'malformed variant of a valid two-node model; TLC evaluates MustRaise/MustWarn (layer M) and checks that the guard '
                'sequence (layer P) never returns when it must raise; every request is executed on the real code and the observed '
                'outcome (returned / raised / warned) compared with MustRaise / MustWarn')
    ctx.assumptions += ['a raise where the property does not demand one is recorded as drift, not as a violation',
                        'Fortran cells are limited to the configurations that decide before f2py is invoked plus a few compiled ones',
                        'julia / matlab backends are not installed']
    backends = 'Backends' if tier == 'thorough' else '{"default", "torch", "jax"}'
    expr = f'Matrix({backends}) \\cup Malformed' + ('' if tier == 'thorough' else ' \\cup {r \\in Matrix({"fortran"}) : r.vec \\/ (r.delay = "none" /\\ r.solver \\in {"euler", "rk99"} /\\ r.call = "run")}')
    c = tlc.cfg(constants=dict(Dev=set()), invariants=['NoUnsupportedReturn', 'NoSilentDrop', 'RaisesOnlyWhenRequired', 'Export'])
    r = tlc.run_tlc('Guards', c, workers=4, defs=dict(Requests=expr))
    ctx.add_tlc('design', r, 'guard sequence (P) never returns where the property demands an exception')
    if not r['ok']:
        ctx.spec_violation('design', r)
    vac = {}
    for d in ('DelaySupportFlagLost', 'SolverNotValidated', 'MissingTargetSilent'):
        cv = tlc.cfg(constants=dict(Dev={d}), invariants=['NoUnsupportedReturn', 'NoSilentDrop'])
        rv = tlc.run_tlc('Guards', cv, workers=4, defs=dict(Requests='Matrix(Backends) \\cup Malformed'))
        ctx.add_tlc(f'vacuity:{d}', rv, 'must violate')
        vac[d] = rv['violated']
        if rv['violated'] is None:
            ctx.violation(dict(kind='spec', what=f'deviation {d} not detected'))
    ctx.notes['deviations_detected_by'] = vac
    reqs = r['exports'].get('REQ', [])
    ctx.exhaustive = True
    outs = run_cases(job, [q['rq'] for q in reqs], timeout=600)
    tally = {}
    for q, o in zip(reqs, outs):
        if 'harness_error' in o:
            raise RuntimeError(f'replay failed: {o}')
        ctx.replayed += 1
        ctx.case(key=q['rq'], nontrivial=q['mustRaise'] or q['mustWarn'] or q['rq']['backend'] != 'default')
        k = ('mustRaise' if q['mustRaise'] else 'mustWarn' if q['mustWarn'] else 'free') + ':' + o['outcome']
        tally[k] = tally.get(k, 0) + 1
        rq = q['rq']
        d59 = (rq['backend'] == 'jax' and rq['vec'] and rq['delay'] == 'mixed2' and rq.get('form', 'nodes') == 'nodes'
               and rq['solver'] in ('euler', 'heun') and rq['defect'] == 'none')
        if q['mustRaise'] and o['outcome'] != 'raised' and d59 and ctx.open_finding('D59'):
            ctx.known_hit('D59', dict(case=rq, observed=o))
        elif q['mustRaise'] and o['outcome'] != 'raised':
            ctx.violation(dict(kind='conformance', what='unsupported request returned instead of raising', case=q['rq'], observed=o,
                               expected='raised'))
        elif q['mustWarn'] and o['outcome'] == 'returned' and not o['warned']:
            ctx.violation(dict(kind='conformance', what='request addressed to a non-existent variable was dropped silently',
                               case=q['rq'], observed=o, expected='warning or exception'))
        elif not q['mustRaise'] and o['outcome'] == 'raised':
            ctx.notes.setdefault('drift_unrequired_raises', []).append(dict(rq=q['rq'], exc=o.get('exc'), msg=o.get('msg')))
    ctx.notes['outcomes'] = tally
    if 'drift_unrequired_raises' in ctx.notes:
        dr = ctx.notes['drift_unrequired_raises']
        ctx.notes['drift_unrequired_raises'] = dict(n=len(dr), first=dr[:8])
    ctx.sample(dict(request=reqs[0]['rq'], mustRaise=reqs[0]['mustRaise']))


def replay(ctx, rec):
    o = run_cases(job, [rec['case']])[0]
    print(json.dumps(o, indent=1))
    return 1
