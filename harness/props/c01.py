"""C01 - generated vector field equals the model the user wrote.   spec/Wiring.tla"""
import json, random
from .. import tlc
from ..pool import run_cases
from .. import netmodel as nm

DEVS = ['ParallelEdgeLastWins', 'SourceKeyedByNode', 'MultiSourceReplacesLastVar', 'DefaultAddedToSum']


def tlc_programs(ctx, name, expr, workers=4):
    c = tlc.cfg(constants=dict(Dev=set()), invariants=['FieldCorrect', 'LayoutIsPartition', 'Export'])
    r = tlc.run_tlc('Wiring', c, workers=workers, defs=dict(Progs=expr), mc_extends=['WiringCases'], timeout=3000)
    ctx.add_tlc(f'design:{name}', r, 'Dev={}: P refines M (FieldCorrect) + export of Denote')
    if not r['ok']:
        ctx.spec_violation(name, r)
    return r['exports'].get('PROG', [])


def vacuity(ctx, expr):
    out = {}
    for d in DEVS:
        c = tlc.cfg(constants=dict(Dev={d}), invariants=['FieldCorrect'])
        r = tlc.run_tlc('Wiring', c, workers=8, defs=dict(Progs=expr), mc_extends=['WiringCases'])
        ctx.add_tlc(f'vacuity:{d}', r, 'must violate FieldCorrect')
        out[d] = r['violated']
        if r['violated'] is None:
            ctx.violation(dict(kind='spec', what=f'deviation {d} not detected (vacuous)'))
    return out


def job(j):
    p, v = j['p'], j['variant']
    order = None
    if v.get('reverse'):
        order = list(range(len(p['prog']['nodes']), 0, -1))
    return nm.compile_prog(p['prog'], p['sv'], v['vec'], hier=v['hier'], order=order, eqform=v.get('eqform', 0))


def select(ctx, progs, cap):
    rng = random.Random(ctx.seed)
    nontriv = [p for p in progs if p['nontrivial']]
    triv = [p for p in progs if not p['nontrivial']]
    rng.shuffle(nontriv); rng.shuffle(triv)
    take = nontriv[:int(cap * 0.7)]
    take += triv[:cap - len(take)]
    return take


def variants(k, tier):
    vs = [dict(vec=False, hier=0), dict(vec=True, hier=0)]
    extra = [dict(vec=True, hier=1), dict(vec=False, hier=1, reverse=True), dict(vec=True, hier=0, reverse=True),
             dict(vec=False, hier=2), dict(vec=True, hier=2, reverse=True)]
    vs = [dict(v, eqform=(k + i) % 4) for i, v in enumerate(vs)]          # how the equation is written must not matter
    if tier == 'thorough':
        return vs + [dict(extra[k % len(extra)], eqform=k % 4), dict(extra[(k + 2) % len(extra)], eqform=(k + 1) % 4)]
    return vs + [dict(extra[k % len(extra)], eqform=(k + 2) % 4)]


def judge(ctx, p, v, o, what):
    exp = nm.expected_field(p)
    rec = dict(prog=p['prog'], sv=p['sv'], variant=v)
    if 'field' in o and o['field'] == exp and o.get('affine'):
        return 'pass'
    ctx.violation(dict(kind='conformance', what=what, case=rec, observed={k: o[k] for k in o if k != 'args'}, expected=exp))
    return 'violation'


def run(ctx):
    tier = ctx.tier
    ctx.rule = ('TLC enumerates every program with 1-2 (quick) / 1-3 (thorough, sampled) nodes of kinds L, P, Q, S and every '
                'ordered edge list of <= 2 (3) edges incl. parallel edges, several variables of one node to one target, '
                'same-node operator output plus edges on one input, both inputs of one operator, edge templates; Denote (layer '
                'M) is exported as an integer affine field; each selected program is compiled with vectorize on/off, 0-2 '
                'hierarchy levels and reversed node declaration order and the field recovered by probing is compared exactly; '
                'non-trivial = some input receives >= 2 contributions')
    ctx.assumptions += ['operator library is affine with integer data: agreement on a basis and at zero is agreement for every y',
                        'variable names from the neutral set here; hazard names (x_v1, weight, ...) are exercised in C05',
                        'state positions are recovered from pairwise distinct initial values, never from generated names']
    progs = tlc_programs(ctx, 'two-nodes', 'Programs({"L", "P", "Q", "S"}, 1, 2, 2, {FALSE, TRUE})')
    if tier == 'thorough':
        progs += tlc_programs(ctx, 'three-nodes', 'Programs({"L", "P", "S"}, 3, 3, 2, {FALSE})')
    ctx.notes['deviations_detected_by'] = vacuity(ctx, 'Programs({"L", "P"}, 1, 2, 2, {FALSE})')
    ctx.notes['programs_enumerated'] = len(progs)
    sel = select(ctx, progs, 450 if tier == 'quick' else 6000)
    # edges whose template reads a second variable given as a path (w * (source - x_ref))
    refs = tlc_programs(ctx, 'ref-edges', 'RefProgs({3}, {<<"L">>, <<"L", "S">>})' if tier == 'quick' else 'RefProgs({3, 4}, {<<"L">>, <<"L", "S">>})', workers=8)
    random.Random(ctx.seed + 1).shuffle(refs)
    sel += refs[:150 if tier == 'quick' else 1500]
    jobs = []
    skipped = dict(d42=0, d43=0)
    for k, p in enumerate(sel):
        for v in variants(k + ctx.seed, tier):
            if v['vec'] and p['d42'] and ctx.open_finding('D42'):
                skipped['d42'] += 1; continue
            if not v['vec'] and p['d43'] and ctx.open_finding('D43'):
                skipped['d43'] += 1; continue
            if v['vec'] and p.get('d61') and ctx.open_finding('D61'):
                skipped['d61'] = skipped.get('d61', 0) + 1; continue
            jobs.append(dict(p=p, variant=v))
    ctx.notes['variants_excluded_by_known_findings'] = skipped
    outs = run_cases(job, jobs, timeout=300)
    verd = {}
    for j, o in zip(jobs, outs):
        if 'harness_error' in o:
            raise RuntimeError(f'replay failed: {o}')
        ctx.replayed += 1
        ctx.case(key=[j['p']['prog'], j['variant']], nontrivial=j['p']['nontrivial'])
        r = judge(ctx, j['p'], j['variant'], o, 'compiled field vs Denote')
        verd[r] = verd.get(r, 0) + 1
    ctx.notes['verdicts'] = verd
    pinned(ctx)
    for p in sel[:2]:
        ctx.sample(dict(prog=p['prog'], state_vars=p['sv'], field=p['field']))


def _nodes(*kinds):
    return [dict(kind=k, c=2 * n, a=-n, du=5 + n, dv=7 + n) for n, k in enumerate(kinds, start=1)]


PINNED = [
    ('D42', dict(prog=dict(nodes=_nodes('S', 'S'), edges=[dict(s=1, sv='x', t=1, tv='v', w=2, tm=True), dict(s=2, sv='x', t=1, tv='v', w=3, tm=False)]),
                 sv=[dict(n=1, v='x'), dict(n=1, v='q'), dict(n=2, v='x'), dict(n=2, v='q')]), dict(vec=True, hier=0),
     [dict(coef=[59.0, 0.0, 30.0, 0.0], const=8.0), dict(coef=[0.0, -3.0, 0.0, 0.0], const=0.0),
      dict(coef=[0.0, 0.0, -2.0, 0.0], const=101.0), dict(coef=[0.0, 0.0, 0.0, -3.0], const=0.0)], 'wrong_const'),
    ('D42', dict(prog=dict(nodes=_nodes('P', 'P'), edges=[dict(s=1, sv='x', t=1, tv='u', w=2, tm=True), dict(s=2, sv='x', t=1, tv='v', w=3, tm=True)]),
                 sv=[dict(n=1, v='z'), dict(n=1, v='x'), dict(n=2, v='z'), dict(n=2, v='x')]), dict(vec=True, hier=0),
     [dict(coef=[-2.0, 0.0, 0.0, 0.0], const=0.0), dict(coef=[3.0, 5.0, 0.0, 90.0], const=2.0),
      dict(coef=[0.0, 0.0, -2.0, 0.0], const=0.0), dict(coef=[0.0, 0.0, 3.0, -2.0], const=94.0)], 'wrong_const'),
    ('D43', dict(prog=dict(nodes=_nodes('P'), edges=[dict(s=1, sv='z', t=1, tv='v', w=2, tm=True), dict(s=1, sv='z', t=1, tv='v', w=3, tm=True)]),
                 sv=[dict(n=1, v='z'), dict(n=1, v='x')]), dict(vec=False, hier=0),
     [dict(coef=[-2.0, 0.0], const=0.0), dict(coef=[153.0, -1.0], const=2.0)], 'IndexError'),
]


PINNED.append(
    ('D61', dict(prog=dict(nodes=_nodes('L', 'S', 'L'), edges=[dict(s=1, sv='x', t=2, tv='u', w=9, tm=False, ref=2),
                                                                dict(s=1, sv='x', t=2, tv='u', w=5, tm=False, ref=1)]),
                 sv=[dict(n=1, v='x'), dict(n=2, v='x'), dict(n=2, v='q'), dict(n=3, v='x')]), dict(vec=True, hier=0),
     [dict(coef=[-1.0, 0.0, 0.0, 0.0], const=88.0), dict(coef=[9.0, -11.0, 0.0, 0.0], const=94.0),
      dict(coef=[0.0, 0.0, -3.0, 0.0], const=0.0), dict(coef=[0.0, 0.0, 0.0, -3.0], const=114.0)], 'wrong_coef'))


def pinned(ctx):
    todo = [p for p in PINNED if ctx.open_finding(p[0])]
    outs = run_cases(job, [dict(p=p[1], variant=p[2]) for p in todo], timeout=300)
    for (fid, p, v, exp, how), o in zip(todo, outs):
        ctx.case(key=['pinned', fid, p['prog'], v])
        if 'field' in o and o['field'] == exp:
            ctx.notes.setdefault('pinned_no_longer_failing', []).append(fid)
        elif how == 'IndexError' and o.get('exc') == 'IndexError':
            ctx.known_hit(fid, dict(case=p['prog'], observed=o.get('msg')))
        elif how == 'wrong_coef' and 'field' in o and o.get('affine') and [r['const'] for r in o['field']] == [r['const'] for r in exp]:
            ctx.known_hit(fid, dict(case=p['prog'], observed=o['field']))     # silent: constants right, a coefficient wrong
        elif how == 'wrong_const' and 'field' in o and [r['coef'] for r in o['field']] == [r['coef'] for r in exp]:
            ctx.known_hit(fid, dict(case=p['prog'], observed=o['field']))     # coefficients right, only a default constant wrong
        else:
            ctx.violation(dict(kind='conformance', what=f'pinned reproducer of {fid} fails differently',
                               case=dict(prog=p['prog'], sv=p['sv'], variant=v), observed={k: o[k] for k in o if k != 'args'}, expected=exp))


def replay(ctx, rec):
    c = rec['case']
    o = run_cases(job, [dict(p=dict(prog=c['prog'], sv=c['sv']), variant=c['variant'])])[0]
    print(json.dumps(dict(observed=o, expected=rec.get('expected')), indent=1, default=str))
    return 1
