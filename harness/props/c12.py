"""C12 - get_jacobian_func returns the derivative of get_run_func.   spec/Expr.tla (D), spec/Jacobian.tla"""
import json, random
from .. import tlc
from ..pool import run_cases
from ..exprtree import ev

SV = ['x', 'z', 'w']
PAR = dict(p=3.0, g=2.0)
TAU = {1: 0.5, 2: 0.25, 3: 0.2504}
Y0 = dict(x=0.5, z=0.75, w=1.25)


def build(m, lit_delays=False, order=(0, 1, 2)):
    from pyrates import OperatorTemplate, NodeTemplate, CircuitTemplate
    eqs = []
    uses_m = any('m' in e.replace('sigmoid', '').replace('sum', '') and (' m ' in f' {e} ' or 'm *' in e or '* m' in e) for e in m['eqs'])
    uses_q = any(' q' in f' {e} ' or '+ q' in e for e in m['eqs'])
    uses_m = uses_m or uses_q
    if uses_m:
        eqs.append('m = z * w')
    if uses_q:
        eqs.append('q = m * m + sin(z)')
    des = [f"d/dt * x = {m['eqs'][0]}", f"d/dt * z = {m['eqs'][1]}", f"d/dt * w = {m['eqs'][2]}"]
    eqs += [des[i] for i in order]       # the order of the equations fixes the layout of the state vector
    variables = {'x': f"output({Y0['x']})", 'z': f"variable({Y0['z']})", 'w': f"variable({Y0['w']})", 'p': PAR['p'], 'g': PAR['g']}
    if uses_m:
        variables['m'] = 'variable(0.0)'
    if uses_q:
        variables['q'] = 'variable(0.0)'
    for d in m['delays']:
        if lit_delays:      # the delay written as a numeric literal instead of a parameter
            eqs = [e.replace(f'tau{d}', repr(TAU[d])) for e in eqs]
        else:
            variables[f'tau{d}'] = TAU[d]
    op = OperatorTemplate('op', equations=eqs, variables={k: v for k, v in variables.items() if any(k in e for e in eqs)})
    return CircuitTemplate('net', nodes={'n': NodeTemplate('n', operators=[op])})


def hist_at(t):
    import numpy as np
    return np.array([0.3, 0.7, 1.1]) + 0.1 * t


def job(j):
    import numpy as np, warnings
    warnings.filterwarnings('ignore')
    m = j['m']
    dde = bool(m['delays'])
    kw = dict(vectorize=False, verbose=False, clear=True, in_place=False, float_precision='float64')
    if dde:
        kw['solver'] = 'scipy'
    try:
        if j.get('prelude'):      # the same equations were compiled before in this process with another state layout
            build(m, j.get('lit'), order=(2, 0, 1)).get_jacobian_func('jf', 1e-3, sparse=j['sparse'], **kw)
        f, fa, fnames, fsvm = build(m, j.get('lit')).get_run_func('vf', 1e-3, **kw)
        J, ja, jnames, jsvm = build(m, j.get('lit')).get_jacobian_func('jf', 1e-3, sparse=j['sparse'], **kw)
    except Exception as e:
        import traceback
        return dict(exc=type(e).__name__, msg=str(e)[:300], tb=traceback.format_exc()[-700:])
    pos = {v: int(np.ravel(fsvm[f'n/op/{v}'])[0]) if not isinstance(fsvm[f'n/op/{v}'], int) else fsvm[f'n/op/{v}'] for v in SV}
    jpos = {v: int(np.ravel(jsvm[f'n/op/{v}'])[0]) if not isinstance(jsvm[f'n/op/{v}'], int) else jsvm[f'n/op/{v}'] for v in SV}
    rng = random.Random(j['seed'])
    out = []
    for _ in range(3):
        yv = {v: rng.choice([0.25, 0.5, 0.75, 1.0, 1.5, -0.5]) for v in SV}
        t = rng.choice([0.0, 1.0, 2.5])
        y = np.zeros(3)
        for v in SV:
            y[pos[v]] = yv[v]
        hist = (lambda tt, _p=pos: np.array([hist_at(tt)[SV.index(v)] for v in sorted(SV, key=lambda s: _p[s])]))
        fargs = [a for a in fa[2:] if not callable(a)] if dde else list(fa[2:])
        jargs = [a for a in ja[2:] if not callable(a)] if dde else list(ja[2:])
        try:
            if dde:
                res = J(t, y.copy(), hist, *jargs)
                J0, Jh = res[0], list(res[1])
            else:
                res = J(t, y.copy(), *jargs)
                J0, Jh = res, []
            to_dense = lambda M: np.asarray(M.todense() if hasattr(M, 'todense') else M, dtype='float64')
            J0 = to_dense(J0); Jh = [to_dense(M) for M in Jh]
            # central differences of the generated vector field (the property's own definition)
            def fval(yy, hh=hist):
                return np.array(f(t, yy.copy(), hh, *fargs) if dde else f(t, yy.copy(), *fargs), dtype='float64').ravel()[:3].copy()
            eps = 1e-6
            fd = np.zeros((3, 3))
            for c in range(3):
                e = np.zeros(3); e[c] = eps
                fd[:, c] = (fval(y + e) - fval(y - e)) / (2 * eps)
        except Exception as e:
            import traceback
            return dict(exc=type(e).__name__, msg=str(e)[:300], tb=traceback.format_exc()[-700:], stage='call')
        # reorder to x, z, w
        perm = [jpos[v] for v in SV]
        fperm = [pos[v] for v in SV]
        out.append(dict(y=yv, t=t, J0=J0[np.ix_(perm, perm)].tolist(), Jh=[M[np.ix_(perm, perm)].tolist() for M in Jh],
                        fd=fd[np.ix_(fperm, fperm)].tolist()))
    return dict(points=out)


def expected(m, pt):
    env = dict(pt['y']); env.update(PAR); env['m'] = pt['y']['z'] * pt['y']['w']
    past = lambda n, d: float(hist_at(pt['t'] - TAU[d])[SV.index(n)])
    J0 = [[ev(m['j0'][i][j], env, past) for j in range(3)] for i in range(3)]
    Jd = [[[ev(M[i][j], env, past) for j in range(3)] for i in range(3)] for M in m['jd']]
    return J0, Jd


def close(A, B, tol):
    import numpy as np
    A, B = np.asarray(A, dtype='float64'), np.asarray(B, dtype='float64')
    return A.shape == B.shape and bool(np.all(np.abs(A - B) <= tol * (1 + np.abs(B))))


def run(ctx):
    tier = ctx.tier
    ctx.rule = ('TLC builds, for every model of ModelSet (right-hand sides of three scalar state variables composed from 18 terms: '
                'products, powers, quotient, sin/cos/exp/tanh/sigmoid, an algebraic intermediate, delayed factors with two delays on '
                'non-first variables, instantaneous entries that contain a delayed factor), the derivative trees J0 and one matrix per '
                'distinct delay with Expr!D and checks D against exact difference quotients on the polynomial part; every model is '
                'compiled with get_run_func and get_jacobian_func (dense and sparse) and the returned matrices are compared at 3 points '
                'with the evaluated trees and with central differences of the generated vector field')
    ctx.assumptions += ['elementary functions are evaluated by the harness with their NumPy meaning; tolerance 1e-9 (trees) / 1e-5 (differences)',
                        'scalar models, vectorize=False, default backend; DFDU/DFDP of the auto-07p export are parsed in C18 only']
    expr = 'ModelSet(1..19, {3, 8, 13, 18, 19}, {5, 10}, {12, 16})' if tier == 'quick' else 'ModelSet(1..19, 1..19, {5, 10, 17}, {12, 16, 7})'
    c = tlc.cfg(constants={}, invariants=['DerivativeExactOnPolynomials', 'HistoryColumnsAreStatePositions', 'Export'])
    r = tlc.run_tlc('Jacobian', c, workers=8, defs=dict(Models=expr), timeout=3000)
    ctx.add_tlc('design', r, 'derivative trees; D exact on polynomial parts')
    if not r['ok']:
        ctx.spec_violation('design', r)
    models = r['exports'].get('MODEL', [])
    rng = random.Random(ctx.seed)
    rng.shuffle(models)
    models = models[:200 if tier == 'quick' else 2500]
    jobs = [dict(m=m, sparse=(k % 3 == 0), lit=(k % 2 == 1), seed=ctx.seed * 1000 + k, prelude=(k % 4 == 2)) for k, m in enumerate(models)]
    outs = run_cases(job, jobs, timeout=600)
    verd = {}
    for j, o in zip(jobs, outs):
        if 'harness_error' in o:
            raise RuntimeError(f'replay failed: {o}')
        ctx.replayed += 1
        m = j['m']
        ctx.case(key=m['eqs'] + [j['sparse'], j['lit']], nontrivial=True)
        res = judge(ctx, j, o)
        verd[res] = verd.get(res, 0) + 1
    ctx.notes['verdicts'] = verd
    ctx.sample(dict(eqs=models[0]['eqs'], delays=models[0]['delays']))


def judge(ctx, j, o):
    m = j['m']
    case = dict(eqs=m['eqs'], delays=m['delays'], sparse=j['sparse'], literal_delays=bool(j.get('lit')))
    if 'exc' in o:
        ctx.violation(dict(kind='conformance', what='get_jacobian_func / get_run_func raised', case=case, observed=o))
        return 'violation'
    for pt in o['points']:
        J0e, Jde = expected(m, pt)
        ok0 = close(pt['J0'], J0e, 1e-9) and close(pt['J0'], pt['fd'], 1e-5)
        # every expected history matrix must be returned (as a multiset), and nothing else
        rest = list(pt['Jh'])
        okh = len(rest) == len(Jde)
        for E in Jde:
            hit = next((k for k, M in enumerate(rest) if close(M, E, 1e-9)), None)
            if hit is None:
                okh = False; break
            rest.pop(hit)
        if not (ok0 and okh):
            ctx.violation(dict(kind='conformance', what='Jacobian differs from the derivative of the vector field', case=case,
                               observed=dict(point=dict(y=pt['y'], t=pt['t']), J0=pt['J0'], Jh=pt['Jh'], central_differences=pt['fd']),
                               expected=dict(J0=J0e, Jd=Jde)))
            return 'violation'
    return 'pass'


def replay(ctx, rec):
    print(json.dumps(rec, indent=1, default=str)[:4000])
    return 1
