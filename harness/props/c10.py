"""C10 - delayed terms read the true past of the trajectory.
spec/Solver.tla (history buffer in the solver loop), spec/Jacobian.tla (models with past() leaves), spec/DDEHistory.tla (traces)"""
import json, random
from fractions import Fraction
from .. import tlc
from ..pool import run_cases
from .. import linmodel
from ..exprtree import ev
from . import solver_common as sc, c12, c19

VARIANTS = [dict(scale=1.0, precision='float64'), dict(scale=0.5, precision='float64'), dict(scale=0.25, precision='float32')]


# ------------------------------------------------------------------ run level (+ recorded history log)
def run_job(j):
    import numpy as np
    case, v = j['case'], j['variant']
    m, cfg = case['m'], case['cfg']
    log = dict(events=[], installed=False)
    scale = v['scale']
    pos_of = {}

    def deco(f):
        def g(t, y, hist, *args):
            if not log['installed']:
                log['installed'] = True
                orig_update = hist.update
                def upd(tt, yy):
                    log['events'].append(('update', float(tt), np.array(yy, dtype='float64').copy()))
                    return orig_update(tt, yy)
                hist.update = upd
                log['y0'] = np.array(y, dtype='float64').copy()
            class Proxy:
                def __call__(self, tt):
                    r = hist(tt)
                    log['events'].append(('query', float(tt), np.array(r, dtype='float64').copy()))
                    return r
            return f(t, y, Proxy(), *args)
        return g
    out = linmodel.run_model(m, cfg, scale=scale, precision=v['precision'], decorator=deco if j.get('trace') else None)
    if j.get('trace') and 'exc' not in out:
        evs = []
        ok = True
        for kind, tt, val in log['events']:
            ts = Fraction(tt) / Fraction(scale)
            if ts.denominator != 1 or any(Fraction(float(x)).denominator > 64 for x in val):
                ok = False; break
            if kind == 'update':
                evs.append(dict(ev='update', t=int(ts), y=[int(x) for x in val], status='ok'))
            else:
                evs.append(dict(ev='query', t=int(ts), r=[[Fraction(float(x)).numerator, Fraction(float(x)).denominator] for x in val]))
        out['trace'] = dict(ok=ok, t0=0, y0=[int(x) for x in log.get('y0', [])], events=evs) if log['installed'] else dict(ok=False, events=[])
    return out


# ------------------------------------------------------------------ function level: recording hist
def func_job(j):
    import numpy as np, warnings
    warnings.filterwarnings('ignore')
    m = j['m']
    dt = 0.25
    try:
        circ = c12.build(m, j.get('lit'))
        if j.get('tminus'):       # the other documented notation: x(t - tau)
            from pyrates import OperatorTemplate, NodeTemplate, CircuitTemplate
            op = list(circ.nodes['n'].operators)[0]
            import re
            eqs = [re.sub(r'past\\((\\w+), ([^)]+)\\)', r'\\1(t-\\2)', e) for e in op.equations]
            circ = CircuitTemplate('net', nodes={'n': NodeTemplate('n', operators=[OperatorTemplate('op', equations=eqs, variables=dict(op.variables))])})
        kw = dict(vectorize=False, verbose=False, clear=True, in_place=False, float_precision='float64')
        f, fa, names, svm = circ.get_run_func('vf', dt, solver=('scipy' if j['adaptive'] else 'euler'), **kw)
    except Exception as e:
        import traceback
        return dict(exc=type(e).__name__, msg=str(e)[:300], tb=traceback.format_exc()[-600:])
    pos = {v: int(np.ravel(svm[f'n/op/{v}'])[0]) for v in c12.SV}
    args = [a for a in fa[2:] if not callable(a)]
    rng = random.Random(j['seed'])
    pts = []
    for _ in range(3):
        yv = {v: rng.choice([0.25, 0.5, 0.75, 1.0, 1.5, -0.5]) for v in c12.SV}
        k = rng.choice([0, 3, 8]) if not j['adaptive'] else rng.choice([0.0, 0.75, 2.0])
        y = np.zeros(3)
        for v in c12.SV:
            y[pos[v]] = yv[v]
        queries = []
        def hist(tt, _p=pos):
            queries.append(float(tt))
            full = c12.hist_at(tt)
            return np.array([full[c12.SV.index(v)] for v in sorted(c12.SV, key=lambda s: _p[s])])
        try:
            dy = np.array(f(k, y.copy(), hist, *args), dtype='float64').ravel()[:3]
        except Exception as e:
            import traceback
            return dict(exc=type(e).__name__, msg=str(e)[:300], tb=traceback.format_exc()[-600:], stage='call')
        pts.append(dict(y=yv, t=(k if j['adaptive'] else k * dt), dy=[float(dy[pos[v]]) for v in c12.SV], queries=sorted(set(queries))))
    return dict(points=pts)


def run(ctx):
    tier = ctx.tier
    ctx.rule = ('(a) Solver.tla with the history buffer: every C10 case (self-delayed linear models with 1-3-step delays, one or two '
                'nodes, euler/heun, sampling 1-3) run through run() and compared exactly with the delayed recurrence whose pre-history '
                'is the initial state; (b) for a third of them the update/query log of the real DDEHistory object, recorded through '
                'the decorator keyword, is validated by TLC against DDEHistory.tla; (c) Jacobian.tla models with past() leaves: the '
                'compiled function is called with a recording hist callable (fixed-step and adaptive form, both notations, literal '
                'delays) - its value must equal the tree evaluated with component x of hist(t - tau) and the query times must be '
                'exactly t - tau in time units; (d) adaptive run vs the exact method-of-steps solution of x\' = k x(t-1) on [0, 2]')
    ctx.assumptions += ['delays on the step lattice for the exact Euler/Heun rows; the adaptive clause at tolerance 2e-3 (history is '
                        'linearly interpolated between accepted steps)',
                        'a past() term must be multiplied by a parameter and not be subtracted (other spellings: known finding D46, pinned)']
    # (a) + (b)
    cases = sc.tlc_cases(ctx, 'C10', 'C10Cases(%d)' % (8 if tier == 'quick' else 12))
    det = sc.vacuity(ctx, 'C10Cases(6)', 'HistNotUpdated')
    ctx.notes['deviations_detected_by'] = {'HistNotUpdated': det}
    jobs = [dict(case=c, variant=VARIANTS[k % 3], trace=(k % 3 == 0)) for k, c in enumerate(cases)]
    outs = run_cases(run_job, jobs, timeout=300)
    traces = []
    for j, o in zip(jobs, outs):
        if 'harness_error' in o:
            raise RuntimeError(f'replay failed: {o}')
        ctx.replayed += 1
        ctx.case(key=['run', j['case']['m'], j['case']['cfg'], j['variant']], nontrivial=True)
        tr = o.pop('trace', None)
        r = sc.judge(ctx, j['case'], j['variant'], o, 'run() rows vs delayed recurrence with constant pre-history')
        if tr is not None and r == 'pass':
            if not tr['ok'] or not tr['events']:
                ctx.violation(dict(kind='trace', what='history log of the solver could not be recorded / is not on the lattice',
                                   case=dict(model=j['case']['m'], cfg=j['case']['cfg'], variant=j['variant']), observed=tr))
            else:
                traces.append(dict(tid=f'run-{len(traces)}', t0=0, y0=tr['y0'], events=tr['events'], variant=j['variant'],
                                   case=dict(model=j['case']['m'], cfg=j['case']['cfg'])))
    if traces:
        import copy
        bad = copy.deepcopy(traces[0]); bad['tid'] = 'CORRUPTED'
        q = next(e for e in bad['events'] if e['ev'] == 'query'); q['r'][0][0] += 1
        acc, rej = c19.validate_traces(ctx, 'solver-history', traces + [bad], 1024, 0)
        for t in traces:
            ctx.case(key=['trace', t['tid']])
            if t['tid'] in acc and t['tid'] not in rej:
                ctx.traces_validated += 1
            else:
                l = rej.get(t['tid'])
                ctx.violation(dict(kind='trace', what='history log recorded from the solver rejected by DDEHistory.tla', case=t['case'],
                                   variant=t['variant'], rejected_at=l, prefix=t['events'][max(0, (l or 1) - 5):(l or 1)]))
        if 'CORRUPTED' in acc or 'CORRUPTED' not in rej:
            ctx.violation(dict(kind='spec', what='corrupted solver-history trace accepted'))
        ctx.sample(dict(kind='trace', events=traces[0]['events'][:8]))
    # code -> spec, call level: the recorded right-hand-side calls must be a behaviour of Solver.tla (history term per call)
    from .. import solvertrace
    solvertrace.check(ctx, 'C10', cases, sc.KNOWN_DEVS, sc.FINDING_OF, cap=150 if tier == 'quick' else 1500)
    # (c) function level
    c = tlc.cfg(constants={}, invariants=['Export'])
    r = tlc.run_tlc('Jacobian', c, workers=8, defs=dict(Models='ModelSet({8, 9, 10, 12, 17, 18}, {3, 8, 13, 18}, {5, 10, 17}, {12, 16})'))
    ctx.add_tlc('models-with-past', r, 'models whose right-hand sides contain delayed leaves')
    models = [m for m in r['exports'].get('MODEL', []) if m['delays']]
    rng = random.Random(ctx.seed); rng.shuffle(models)
    models = models[:120 if tier == 'quick' else 1500]
    fjobs = [dict(m=m, adaptive=(k % 2 == 0), lit=(k % 3 == 1), tminus=(k % 4 == 3), seed=ctx.seed * 77 + k) for k, m in enumerate(models)]
    for j, o in zip(fjobs, run_cases(func_job, fjobs, timeout=300)):
        if 'harness_error' in o:
            raise RuntimeError(f'replay failed: {o}')
        ctx.replayed += 1
        ctx.case(key=['func', j['m']['eqs'], j['adaptive'], j['lit'], j['tminus']], nontrivial=True)
        case = dict(eqs=j['m']['eqs'], delays=j['m']['delays'], adaptive=j['adaptive'], literal_delays=j['lit'], t_minus_notation=j['tminus'])
        if 'exc' in o:
            ctx.violation(dict(kind='conformance', what='model with delayed terms failed to compile / evaluate', case=case, observed=o))
            continue
        for pt in o['points']:
            env = dict(pt['y']); env.update(c12.PAR); env['m'] = pt['y']['z'] * pt['y']['w']
            past = lambda n, d, _t=pt['t']: float(c12.hist_at(_t - c12.TAU[d])[c12.SV.index(n)])
            exp = [ev(j['m']['f'][i], env, past) for i in range(3)]
            expq = sorted({pt['t'] - c12.TAU[d] for d in j['m']['delays']})
            okv = all(abs(a - b) <= 1e-10 * (1 + abs(b)) for a, b in zip(pt['dy'], exp))
            okq = len(pt['queries']) == len(expq) and all(abs(a - b) < 1e-12 for a, b in zip(pt['queries'], expq))
            if not (okv and okq):
                ctx.violation(dict(kind='conformance', what='delayed term is not component x of hist(t - tau)', case=case,
                                   observed=pt, expected=dict(dy=exp, queries=expq)))
                break
    # (d) adaptive run vs method of steps on [0, 3 tau): x' = kr x(t - 1), x = 1 for t <= 0 (kr = k / dt, dt = 1/4)
    for k in (-1, 2):
        for store in (1, 2):
            o = run_cases(_mos_job, [dict(k=k, store=store)], timeout=300)[0]
            ctx.case(key=['method-of-steps', k, store]); ctx.replayed += 1
            exp = [float(method_of_steps(4 * k, Fraction(r * store, 4))) for r in range(12 // store)]
            if 'exc' in o or len(o.get('x', [])) != len(exp) or any(abs(a - b) > 0.035 * (1 + abs(b)) for a, b in zip(o.get('x', []), exp)):
                ctx.violation(dict(kind='conformance', what='adaptive DDE run vs method-of-steps solution', case=dict(k=k, store=store),
                                   observed=o, expected=exp))
    # (e) adaptive solver with a delayed *edge* (emitted as a past() term): exact polynomial chain, float- and integer-typed delays
    ecases = sc.tlc_cases(ctx, 'C10adaptive-edge', 'C10AdaptiveEdgeCases(%d)' % (6 if tier == 'quick' else 10))
    ejobs = [dict(case=c, scale=sc_, int_delays=it) for c in ecases for sc_, it in ((1.0, False), (1.0, True), (0.5, False), (2.0, True))]
    for j, o in zip(ejobs, run_cases(_edge_job, ejobs, timeout=300)):
        if 'harness_error' in o:
            raise RuntimeError(f'replay failed: {o}')
        ctx.replayed += 1
        ctx.case(key=['adaptive-edge', j['case']['m']['edges'], j['case']['cfg'], j['scale'], j['int_delays']], nontrivial=True)
        exp = linmodel.expected_rows(j['case'], 'expM')
        if not sc.same(o, exp, tol=1e-6):
            ctx.violation(dict(kind='conformance', what='adaptive run with a delayed edge vs the exact solution (edge -> past() term)',
                               case=dict(model=j['case']['m'], cfg=j['case']['cfg'], scale=j['scale'], int_delays=j['int_delays']),
                               observed=o, expected=exp))
    pinned(ctx)
    pinned_d49(ctx)


def _edge_job(j):
    c = j['case']
    return linmodel.run_model(c['m'], c['cfg'], scale=j['scale'], precision='float64', int_delays=j['int_delays'], rtol=1e-9, atol=1e-11)


def method_of_steps(kr, t):
    """exact solution of x' = kr x(t - 1), x = 1 on t <= 0, for 0 <= t < 3 (piecewise polynomial, rational arithmetic)"""
    kr = Fraction(kr)
    x1 = lambda s: 1 + kr * s
    x2 = lambda s: (1 + kr) + kr * ((s - 1) + kr * (s - 1) ** 2 / 2)
    x3 = lambda s: x2(Fraction(2)) + kr * ((1 + kr) * (s - 2) + kr * (s - 2) ** 2 / 2 + kr ** 2 * (s - 2) ** 3 / 6)
    return x1(t) if t <= 1 else x2(t) if t <= 2 else x3(t)


def _mos_job(j):
    m = dict(n=1, c=[0], a=[0], x0=[1], ext=[[]], kind=[5], edges=[], sd=[dict(k=j['k'], lag=4)])
    cfg = dict(steps=12, store=j['store'], cut=0, solver='scipy', vec=False)
    o = linmodel.run_model(m, cfg, scale=0.25, precision='float64', rtol=1e-8, atol=1e-10)
    return dict(x=[r[0] for r in o['rows']]) if 'rows' in o else o


def _pin_job(eq):
    import warnings
    warnings.filterwarnings('ignore')
    from pyrates import OperatorTemplate, NodeTemplate, CircuitTemplate
    op = OperatorTemplate('op', equations=[eq], variables={'x': 'output(1.0)', 'a': 2.0, 'u': 'input(0.0)', 'tau': 0.004})
    c = CircuitTemplate('c', nodes={'n1': NodeTemplate('n1', [op])})
    try:
        r = c.run(0.02, 0.001, outputs={'o': 'n1/op/x'}, solver='euler', verbose=False, vectorize=False, in_place=False, float_precision='float64')
        return dict(ok=True, last=float(r.values[-1][0]))
    except Exception as e:
        return dict(exc=type(e).__name__, msg=str(e)[:200])


def pinned(ctx):
    """known finding D46: a subtracted past() term / one with a literal coefficient inside a sum fails loudly"""
    if not ctx.open_finding('D46'):
        return
    o = run_cases(_pin_job, ["x' = u - a*x - past(x, tau)"])[0]
    ctx.case(key='pinned-D46')
    if o.get('exc') in ('TypeError', 'KeyError'):
        ctx.known_hit('D46', dict(observed=o))
    elif o.get('ok'):
        ctx.notes.setdefault('pinned_no_longer_failing', []).append('D46')
    else:
        ctx.violation(dict(kind='conformance', what='pinned reproducer of D46 fails differently', case="x' = u - a*x - past(x, tau)", observed=o))


def _d49_job(_):
    m = dict(n=2, c=[0, 0], a=[0, 0], x0=[1, 1], ext=[[], []], kind=[5, 5], edges=[], sd=[dict(k=2, lag=2), dict(k=2, lag=3)])
    return linmodel.run_model(m, dict(steps=6, store=1, cut=0, solver='euler', vec=True), precision='float64')


def pinned_d49(ctx):
    if not ctx.open_finding('D49'):
        return
    o = run_cases(_d49_job, [0])[0]
    ctx.case(key='pinned-D49')
    # x_{k+1} = x_k + 2 x_{k-L}: lag 2 -> 1,3,5,7,13,23 ; lag 3 -> 1,3,5,7,9,15
    exp = [[1, 1], [3, 3], [5, 5], [7, 7], [13, 9], [23, 15]]
    if o.get('rows') == [[float(a), float(b)] for a, b in exp]:
        ctx.notes.setdefault('pinned_no_longer_failing', []).append('D49')
    elif 'rows' in o and [r[0] for r in o['rows']] == [float(r[0]) for r in exp]:
        ctx.known_hit('D49', dict(observed=o['rows']))        # first node right, second node uses the first node's delay
    else:
        ctx.violation(dict(kind='conformance', what='pinned reproducer of D49 fails differently', case='two merged nodes, lags 2 and 3', observed=o, expected=exp))


def replay(ctx, rec):
    print(json.dumps(rec, indent=1, default=str)[:4000])
    return 1
