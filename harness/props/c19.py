"""C19 - DDEHistory is the piecewise-linear interpolant of what it was given.

spec/DDEHistory.tla (design check + behaviour export), spec/trace/TraceDDEHistory.tla (trace validation)."""
import json, os, random, tempfile
from fractions import Fraction
from .. import tlc
from ..pool import run_cases

INVS = ['QueryCorrect', 'ClampLeft', 'ClampRight', 'ExactAtKnots', 'LinearBetween', 'RowsAreCopies',
        'CountsAgree', 'BoundedRefuses', 'Export']
PROPS = ['RefusalKeepsState', 'GrowthOnlyWhenGrowable']
DEVS = ['StoreByReference', 'GrowDropsLast', 'BoundedOverwrites', 'NoClampRight', 'LookupOffByOne']


def _cfg(dev, initcap, maxsteps, k, maxlen, export=True):
    invs = [i for i in INVS if export or i != 'Export']
    return tlc.cfg(constants=dict(Dev=set(dev), InitCap=initcap, MaxSteps=maxsteps, K=k, MaxLen=maxlen, T0=0),
                   invariants=invs, properties=PROPS, constraints=['Bound'], view='View')


def design_cfgs(tier):
    # (name, initcap, maxsteps, K, maxlen, vals, gaps)
    if tier == 'quick':
        return [('grow', 2, 0, 1, 5, '{1, -2}', '{1, 2}'),
                ('grow2', 1, 0, 2, 4, '{0, 3}', '{4}'),
                ('bounded', 2, 3, 1, 5, '{1, -2}', '{1, 4}')]
    return [('grow', 2, 0, 1, 6, '{1, -2, 4}', '{1, 2}'),
            ('grow2', 1, 0, 2, 5, '{0, 3}', '{1, 4}'),
            ('grow3', 3, 0, 1, 7, '{1, -2}', '{2, 4}'),
            ('bounded', 2, 3, 1, 6, '{1, -2, 4}', '{1, 4}'),
            ('bounded1', 2, 1, 2, 3, '{0, 3}', '{1, 2}')]


# ---------------------------------------------------------------- replay of exported behaviours
VARIANTS = [('float64', 'flat', 1.0), ('float32', 'flat', 0.5), ('float64', 'col', 0.25), ('int64', 'flat', 2.0),
            ('complex128', 'flat', 1.0), ('float64', 'scalar', 1.0),
            ('float64', 'flat', (2.0 ** -5, 2.0 ** 36))]      # (scale, offset): finely spaced times far from the origin (dt/|t| ~ 5e-13), still exact


def _tm(ts, t):
    """time map of a variant: t * scale (+ offset)"""
    return t * ts if not isinstance(ts, tuple) else ts[1] + t * ts[0]

# complex variant: component v is stored as v + (2v+1)j; linear interpolation commutes with this affine map, so the
# imaginary part of every answer must be 2*re+1 of the (exactly known) real part


def _mk(vals, dtype, shape):
    import numpy as np
    a = np.array(vals, dtype='float64')
    if dtype.startswith('complex'):
        a = a + 1j * (2 * a + 1)
    return a.astype(dtype).reshape(shape)


def _shape(k, mode):
    if mode == 'scalar':
        return () if k == 1 else (k,)
    if mode == 'col':
        return (k, 1)
    return (k,)


def _replay_one(case, variant, rng):
    import numpy as np
    from pyrates.backend.base.base_backend import DDEHistory
    dtype, mode, ts = variant
    k = len(case['y0'])
    shape = _shape(k, mode)
    DDEHistory._INITIAL_CAPACITY = case['initcap']
    y0 = _mk(case['y0'], dtype, shape)
    h = DDEHistory(y0, t0=_tm(ts, case['t0']), max_steps=(case['maxsteps'] or None))
    y0[...] = 55555                       # the constructor must have copied as well
    a = np.zeros(shape, dtype=dtype)      # the single array object the caller keeps re-using
    status = 'init'
    for c in case['calls']:
        if c['a'] == 'update':
            a[...] = _mk(c['y'], dtype, shape)
            try:
                h.update(_tm(ts, c['t']), a)
                status = 'ok'
            except IndexError:
                status = 'refused'
        else:
            a[...] = 55555
            status = 'mutated'
    bad = []
    if status != case['status']:
        bad.append(dict(what='status', observed=status, expected=case['status']))
    qs = list(case['queries'])
    orders = [qs, qs[::-1], rng.sample(qs, len(qs))]
    for order in orders:
        # all answers of one pass are fetched first and compared afterwards: an answer must stay what it was when later
        # queries are made (a caller may hold hist(t - d1) while asking for hist(t - d2))
        held = [(q, h(_tm(ts, q['t']))) for q in order]
        for q, ans in held:
            raw = np.asarray(ans).ravel()
            exp = [Fraction(n, d) for n, d in q['r']]
            obs = [Fraction(float(x.real)) for x in raw]
            if dtype.startswith('complex'):
                exp = exp + [2 * e + 1 for e in exp]
                obs = obs + [Fraction(float(x.imag)) for x in raw]
            if obs != exp:
                bad.append(dict(what='query', t=q['t'], observed=[str(x) for x in obs], expected=[str(x) for x in exp],
                                variant=list(variant)))
                break
    return bad


def replay_chunk(chunk):
    rng = random.Random(chunk['seed'])
    out = []
    for case in chunk['cases']:
        bad = []
        for v in VARIANTS:
            if v[1] == 'scalar' and len(case['y0']) != 1:
                continue
            try:
                bad += _replay_one(case, v, rng)
            except Exception as e:
                bad.append(dict(what='exception', exc=repr(e), variant=list(v)))
        out.append(bad)
    return out


# ---------------------------------------------------------------- traces recorded from the real class
def record_traces(job):
    """Random driver over the real class; returns list of traces (integer-scaled events)."""
    import numpy as np
    from pyrates.backend.base.base_backend import DDEHistory
    rng = random.Random(job['seed'])
    DDEHistory._INITIAL_CAPACITY = job['initcap']
    traces = []
    for tno in range(job['n']):
        k = rng.choice([1, 1, 2, 3])
        dtype, mode, ts = rng.choice(VARIANTS[:5] + VARIANTS[6:])
        cx = dtype.startswith('complex')
        shape = _shape(k, mode)
        t0 = rng.choice([0, 0, 3, -2])
        y0v = [rng.randint(-8, 8) for _ in range(k)]
        h = DDEHistory(_mk(y0v, dtype, shape), t0=_tm(ts, t0), max_steps=(job['maxsteps'] or None))
        if cx:      # log real and imaginary parts as 2k components
            y0v = y0v + [2 * v + 1 for v in y0v]
        a = np.zeros(shape, dtype=dtype)
        evs = []
        t = t0
        nup = rng.randint(job['lo'], job['hi'])
        for _ in range(nup):
            t += rng.choice([1, 2, 4, 4, 8])
            v = [rng.randint(-8, 8) for _ in range(k)]
            a[...] = _mk(v, dtype, shape)
            try:
                h.update(_tm(ts, t), a); st = 'ok'
            except IndexError:
                st = 'refused'
            evs.append(dict(ev='update', t=t, y=(v + [2 * x + 1 for x in v]) if cx else v, status=st))
            if st == 'refused':
                t -= 0  # time of a refused update is simply not recorded; later updates still increase
            a[...] = 55555
            evs.append(dict(ev='mutate'))
            for _ in range(rng.choice([0, 1, 1, 2, job.get('qmax', 3)])):
                qt = rng.randint(t0 - 2, t + 2)
                raw = np.asarray(h(_tm(ts, qt))).ravel()
                fr = [Fraction(float(x.real)) for x in raw] + ([Fraction(float(x.imag)) for x in raw] if cx else [])
                if any(f.denominator > 64 or abs(f.numerator) > 10 ** 6 for f in fr):
                    evs.append(dict(ev='query', t=qt, r=[[999999, 1]] * len(fr)))   # not representable: will be rejected
                else:
                    evs.append(dict(ev='query', t=qt, r=[[f.numerator, f.denominator] for f in fr]))
        traces.append(dict(tid=f"{job['name']}-{job['seed']}-{tno}", t0=t0, y0=y0v, events=evs,
                           variant=[dtype, mode, ts]))
    return traces


def validate_traces(ctx, name, traces, initcap, maxsteps, expect_reject=()):
    d = tempfile.mkdtemp(prefix='pyrates-verif-tr-')
    try:
        f = os.path.join(d, 'traces.json')
        with open(f, 'w') as fh:
            json.dump([dict(tid=t['tid'], t0=t['t0'], y0=t['y0'], events=t['events']) for t in traces], fh)
        cfgt = tlc.cfg(constants=dict(Dev=set(), InitCap=initcap, MaxSteps=maxsteps, K=1, MaxLen=0, T0=0),
                       init='TInit', next='TNext',
                       invariants=['Accept', 'Stuck', 'RowsAreCopies', 'CountsAgree', 'BoundedRefuses', 'QueryCorrectAtKnots'])
        res = tlc.run_tlc('TraceDDEHistory', cfgt, workers=1, env={'TRACE_FILE': f},
                          defs=dict(Vals='{0}', Gaps='{1}'), timeout=1800)
    finally:
        import shutil; shutil.rmtree(d, ignore_errors=True)
    ctx.add_tlc('trace:' + name, res, 'trace validation')
    acc = set(json.loads(x) for x in res['tuples'].get('ACCEPT', []))
    rej = {}
    for x in res['tuples'].get('REJECT', []):
        tid, l = x.rsplit(',', 1)
        rej[json.loads(tid.strip())] = int(l)
    return acc, rej


def run(ctx):
    tier, seed = ctx.tier, ctx.seed
    ctx.rule = ('TLC enumerates every update/mutate history within the bounds of each cfg (distinct abstract states, '
                'shortest history per state); each exported state is replayed on the real DDEHistory in 4-5 '
                'dtype/shape/time-scale variants with every in-range query in 3 orders; non-trivial = at least one '
                'update; plus randomly driven logs of the real class validated by TLC against the same actions')
    ctx.assumptions += ['times and values are integers scaled by dyadic factors so that float arithmetic is exact',
                        'DDEHistory._INITIAL_CAPACITY is set by the harness to the InitCap of the cfg (class attribute); '
                        'the shipped capacity 1024 is crossed in the trace-validation part',
                        'mutating the array *returned* by a query is outside the statement and not examined']
    # 1. design check (Dev = {}) + export, 2. non-vacuity (each deviation must be caught by TLC)
    exported = []
    for (name, ic, ms, k, ml, vals, gaps) in design_cfgs(tier):
        res = tlc.run_tlc('DDEHistory', _cfg([], ic, ms, k, ml), workers=1, defs=dict(Vals=vals, Gaps=gaps),
                          coverage=True)
        ctx.add_tlc('design:' + name, res, 'Dev={} all invariants + export')
        if not res['ok']:
            ctx.spec_violation(name, res)
        exported += res['exports'].get('BEH', [])
    vac = {}
    for dev in DEVS:
        ic, ms = (2, 3) if dev == 'BoundedOverwrites' else (2, 0)
        res = tlc.run_tlc('DDEHistory', _cfg([dev], ic, ms, 1, 5, export=False), workers=4,
                          defs=dict(Vals='{1, -2}', Gaps='{1, 2}'))
        vac[dev] = res['violated']
        ctx.add_tlc('vacuity:' + dev, res, 'deviation must violate an invariant')
        if res['violated'] is None:
            ctx.violation(dict(kind='spec', what=f'deviation {dev} not detected by any invariant (vacuous spec)'))
    ctx.notes['deviations_detected_by'] = vac

    # 3. replay exported behaviours on the real class
    chunks = [dict(seed=seed * 1000 + i, cases=exported[i:i + 300]) for i in range(0, len(exported), 300)]
    results = run_cases(replay_chunk, chunks, timeout=600)
    flat = []
    for ch, r in zip(chunks, results):
        if isinstance(r, dict) and 'harness_error' in r:
            raise RuntimeError('replay failed: ' + str(r))
        flat += list(zip(ch['cases'], r))
    for case, bad in flat:
        ctx.replayed += 1
        ctx.case(key=case['calls'] + [case['maxsteps'], case['initcap'], case['y0']],
                 nontrivial=any(c['a'] == 'update' for c in case['calls']))
        if bad:
            ctx.violation(dict(kind='conformance', what='DDEHistory replay', case=case, mismatches=bad[:5]))
    for c in exported[len(exported) // 2: len(exported) // 2 + 2]:
        ctx.sample(dict(kind='behaviour', **c))

    # 4. trace validation of randomly driven logs (larger bounds, incl. the shipped capacity)
    n = 150 if tier == 'quick' else 800
    jobs = [dict(name='small', seed=seed * 100 + j, n=n // 8, initcap=2, maxsteps=0, lo=3, hi=40) for j in range(8)]
    groups = [('cap2', 2, 0, jobs)]
    jobs_b = [dict(name='bounded', seed=seed * 100 + 50 + j, n=n // 16, initcap=2, maxsteps=6, lo=4, hi=10) for j in range(8)]
    groups.append(('bounded6', 2, 6, jobs_b))
    big = [dict(name='shipped', seed=seed * 100 + 90 + j, n=1, initcap=1024, maxsteps=0, qmax=1,
                lo=1030 if tier == 'quick' else 2050, hi=1100 if tier == 'quick' else 3100) for j in range(2 if tier == 'quick' else 6)]
    groups.append(('cap1024', 1024, 0, big))
    for gname, ic, ms, js in groups:
        rs = run_cases(record_traces, js, timeout=900)
        traces = []
        for r in rs:
            if isinstance(r, dict):
                raise RuntimeError('trace recording failed: ' + str(r))
            traces += r
        # binding self-test: corrupt one recorded field of a copy of the first trace; it must be rejected
        import copy
        bad = copy.deepcopy(next(t for t in traces if any(e['ev'] == 'query' for e in t['events'])))
        bad['tid'] = 'CORRUPTED'
        q = next(e for e in bad['events'] if e['ev'] == 'query')
        q['r'][0][0] += 1
        acc, rej = validate_traces(ctx, gname, traces + [bad], ic, ms)
        for t in traces:
            ctx.case(key=t['tid'], nontrivial=len(t['events']) > 2)
            if t['tid'] in acc and t['tid'] not in rej:
                ctx.traces_validated += 1
            else:
                l = rej.get(t['tid'])
                ctx.violation(dict(kind='trace', what='recorded DDEHistory log rejected by the specification',
                                   tid=t['tid'], variant=t['variant'], t0=t['t0'], y0=t['y0'], rejected_at=l,
                                   prefix=t['events'][max(0, (l or 1) - 6):(l or 1)], n_events=len(t['events'])))
        if 'CORRUPTED' in acc or 'CORRUPTED' not in rej:
            ctx.violation(dict(kind='spec', what='corrupted trace was accepted: trace spec does not bind'))
        ctx.notes.setdefault('trace_groups', []).append(dict(group=gname, traces=len(traces),
                                                               events=sum(len(t['events']) for t in traces),
                                                               corrupted_rejected_at=rej.get('CORRUPTED')))
    t = traces[0]
    ctx.sample(dict(kind='trace', tid=t['tid'], t0=t['t0'], y0=t['y0'], events=t['events'][:8]))


def replay(ctx, rec):
    bad = replay_chunk(dict(seed=0, cases=[rec['case']]))[0] if 'case' in rec and 'calls' in rec['case'] else None
    print(json.dumps(bad, indent=1))
    return 1 if bad else 0
