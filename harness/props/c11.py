"""C11 - distributed delays are unit-gain gamma kernels with the stated mean.   spec/Gamma.tla"""
import json, math, random
from .. import tlc
from ..pool import run_cases
from .. import linmodel

VARIANTS = [dict(scale=1.0, precision='float64'), dict(scale=0.5, precision='float64'), dict(scale=0.25, precision='float64'),
            dict(scale=16.0, precision='float64')]       # dt = 16: rates of 1/16 and 1/8 per time unit (coarse keys must not merge chains)


def to_lin(m):
    """Gamma.tla model -> linmodel model (delay d, spread sqrt(s2))"""
    edges = [dict(s=e['s'], t=e['t'], w=e['w'], lag=e['d'], spread=(math.sqrt(e['s2'][0] / e['s2'][1]) if e['s2'][0] else 0.0))
             for e in m['edges']]
    return dict(n=m['n'], c=m['c'], a=m['a'], x0=m['x0'], ext=[[] for _ in range(m['n'])], kind=m['kind'], edges=edges,
                sd=[dict(k=0, lag=0)] * m['n'])


def job(j):
    case, v = j['case'], j['variant']
    cfg = dict(steps=case['cfg']['steps'], store=1, cut=0, solver=j.get('solver', 'euler'), vec=case['cfg']['vec'])
    kw = {}
    if case['cfg']['approx']:
        kw['dde_approx'] = case['cfg']['approx']
    if j.get('solver') == 'scipy':
        kw.update(rtol=1e-10, atol=1e-12)
    return linmodel.run_model(to_lin(case['m']), cfg, scale=v['scale'], precision=v['precision'], form=j.get('form', 'nodes'), **kw)


def expected(case):
    return dict(index=[float(k) for k in range(len(case['rows']))], rows=[[float(v) for v in r] for r in case['rows']])


def run(ctx):
    tier = ctx.tier
    ctx.rule = ('TLC computes, for every ordered edge list (<= 2 / 3 edges over two sources and two targets, 11 (delay, spread) kernels '
                'incl. pairs rounding to the same and to different orders, (d/s)^2 < 1.5, rounding up across .5, and undelayed edges '
                'sharing a source with delayed ones, dde_approx without spread), the Euler iterates of the explicitly written '
                'augmented ODE (own chain per edge); EachEdgeOwnKernel and MeanDelayIsD are TLC invariants; every case is run '
                '(vectorize on/off, four time scales incl. dt = 16) and the rows of the user variables compared exactly; Connectivity form for '
                'single-kernel cases; adaptive solver compared with the same system integrated by the harness')
    ctx.assumptions += ['kernels chosen so that order/delay is an integer: Euler iterates are integers and compared with ==',
                        'adaptive clause: tolerance 1e-6 against a dense reference integration of the explicit linear chain']
    ks = '1..13'
    expr = f'GammaCases(2, {ks}, {{<<1, 1, 2, 2>>, <<1, 2, 3, 3>>}}, 6) \\cup ApproxCases(6)' \
           + ' \\cup {c \\in GammaCases(3, {1, 3}, {<<1, 1, 2, 2>>}, 6) : Len(c.m.edges) = 3 /\\ c.cfg.vec}'
    if tier == 'thorough':      # three-edge lists over a kernel subset (same / different order and rate, undelayed, discrete)
        expr += ' \\cup {c \\in GammaCases(3, {1, 3, 5, 9, 12}, {<<1, 1, 2, 2>>, <<1, 2, 3, 3>>}, 6) : Len(c.m.edges) = 3}'
    c = tlc.cfg(constants=dict(Dev=set()), invariants=['EachEdgeOwnKernel', 'MeanDelayIsD', 'Integral', 'DiscreteKeepsItsDelay', 'Export'])
    r = tlc.run_tlc('Gamma', c, workers=16, defs=dict(Cases=expr), timeout=3000)
    ctx.add_tlc('design', r, 'augmented ODE iterates; kernel invariants')
    if not r['ok']:
        ctx.spec_violation('design', r)
    vac = {}
    for d in ('OrderFloor', 'RateOfFirstSlot', 'OneBranchPerSourceVariable'):
        cv = tlc.cfg(constants=dict(Dev={d}), invariants=['EachEdgeOwnKernel', 'DiscreteKeepsItsDelay'])
        rv = tlc.run_tlc('Gamma', cv, workers=8, defs=dict(Cases='GammaCases(2, 1..13, {<<1, 1, 2, 2>>}, 2)'))
        ctx.add_tlc(f'vacuity:{d}', rv, 'must violate'); vac[d] = rv['violated']
        if rv['violated'] is None:
            ctx.violation(dict(kind='spec', what=f'deviation {d} not detected'))
    ctx.notes['deviations_detected_by'] = vac
    cases = r['exports'].get('CASE', [])
    rng = random.Random(ctx.seed)
    delayed = [c for c in cases if any(e['d'] for e in c['m']['edges']) and not c.get('d59') and not c.get('d06')]
    ctx.notes['excluded_d59_d06'] = len([c for c in cases if c.get('d59') or c.get('d06')])
    rng.shuffle(delayed)
    three = [c for c in delayed if len(c['m']['edges']) == 3]
    sel = [c for c in delayed if len(c['m']['edges']) < 3][:800 if tier == 'quick' else 20000] + three[:250 if tier == 'quick' else 20000]
    ctx.notes['cases_enumerated'] = len(cases)
    jobs = [dict(case=c, variant=VARIANTS[k % 4]) for k, c in enumerate(sel)]
    # two kernels of equal order and different rate leaving one source: additionally at the coarse time scale
    for k, c in enumerate(sel):
        oq = [(c['m']['kind'][e['s'] - 1] if c['cfg']['vec'] else e['s'], o, r)        # source variable after vectorisation
              for e, o, r in zip(c['m']['edges'], c['orders'], c['rates']) if e['d']]
        if k % 4 != 3 and any(a[0] == b[0] and a[1] == b[1] and a[2] != b[2] for a in oq for b in oq):
            jobs.append(dict(case=c, variant=VARIANTS[3]))
    # Connectivity form: all edges between one pair of populations share one kernel
    for c in sel[:300] + [c for c in delayed if c['cfg']['approx'] and c not in sel[:300]]:      # every dde_approx case
        kern = {(e['d'], tuple(e['s2'])) for e in c['m']['edges']}
        if len(kern) == 1 and c['m']['kind'] == [1, 1, 2, 2] and c['cfg']['vec'] and (not c.get('discrete') or c['cfg']['approx']):
            jobs.append(dict(case=c, variant=VARIANTS[0], form='pop'))
    # adaptive solver: same augmented system, tolerance against the exact Euler-free reference computed by the harness
    ajobs = [dict(case=c, variant=VARIANTS[0], solver='scipy') for c in sel[:60 if tier == 'quick' else 600]
             if not c.get('d36') and not c.get('d50') and not c.get('discrete')]
    for c in sel[:400]:          # Connectivity form under the adaptive solver, delays below one time unit
        kern = {(e['d'], tuple(e['s2'])) for e in c['m']['edges']}
        if len(kern) == 1 and c['m']['kind'] == [1, 1, 2, 2] and c['cfg']['vec'] and not c['cfg']['approx'] and len(ajobs) < 90 and not c.get('discrete'):
            ajobs.append(dict(case=c, variant=VARIANTS[2], solver='scipy', form='pop'))
    for j, o in zip(ajobs, run_cases(job, ajobs, timeout=600)):
        ctx.replayed += 1
        ctx.case(key=['adaptive', j.get('form'), j['case']['m']['edges'], j['case']['cfg']], nontrivial=True)
        ref = reference_solution(j['case'])
        if 'rows' not in o or len(o['rows']) != len(ref) or any(abs(a - b) > 1e-5 * (1 + abs(b)) for ra, rb in zip(o['rows'], ref) for a, b in zip(ra, rb)):
            ctx.violation(dict(kind='conformance', what='adaptive run vs the explicit gamma-chain system', observed=o, expected=ref,
                               case=dict(model=j['case']['m'], cfg=j['case']['cfg'], orders=j['case']['orders'], rates=j['case']['rates'])))
    outs = run_cases(job, jobs, timeout=600)
    verd = {}
    for j, o in zip(jobs, outs):
        if 'harness_error' in o:
            raise RuntimeError(f'replay failed: {o}')
        ctx.replayed += 1
        case = j['case']
        ctx.case(key=[case['m']['edges'], case['m']['kind'], case['cfg'], j['variant'], j.get('form')],
                 nontrivial=len({(e['d'], tuple(e['s2'])) for e in case['m']['edges'] if e['d']}) >= 1)
        exp = expected(case)
        if o == exp:
            res = 'pass'
        else:
            res = classify(ctx, j, o, exp)
        verd[f"{j.get('form', 'nodes')}:{res}"] = verd.get(f"{j.get('form', 'nodes')}:{res}", 0) + 1
    ctx.notes['verdicts'] = verd
    pinned_d59(ctx)
    ctx.sample(dict(edges=sel[0]['m']['edges'], orders=sel[0]['orders'], rates=sel[0]['rates'], rows=sel[0]['rows'][:4]))


def _net(kinds, el):
    K = {1: (2, [1, 1]), 12: (2, [0, 1])}
    W = [2, 6, -4]
    return dict(n=4, c=[2, 0, 0, 0], a=[0, 1, 0, -1], x0=[0, 1, 0, 7], kind=kinds,
                edges=[dict(s=s, t=t, w=W[q], d=K[k][0], s2=K[k][1]) for q, (s, t, k) in enumerate(el)])


# D59: one source variable feeds a distributed-delay edge and a plain discrete-delay edge (class kept out of the enumeration)
PINNED_D59 = [
    # no vectorisation: the discrete delay is dropped (the edge delivers the current source value): rows of x4
    dict(kinds=[1, 1, 2, 2], el=[(1, 3, 1), (1, 4, 12)], vec=False, recorded=dict(col=3, rows=[7.0, 0.0, 12.0, 24.0, 36.0, 48.0]),
         correct=dict(col=3, rows=[7.0, 0.0, 0.0, 0.0, 12.0, 24.0])),
    # vectorisation, distributed-delay edge first: the discrete-delay edge delivers nothing at all
    dict(kinds=[1, 1, 2, 2], el=[(1, 3, 1), (1, 4, 12)], vec=True, recorded=dict(col=3, rows=[7.0, 0.0, 0.0, 0.0, 0.0, 0.0]),
         correct=dict(col=3, rows=[7.0, 0.0, 0.0, 0.0, 12.0, 24.0])),
    # vectorisation, discrete-delay edge first: KeyError('spread')
    dict(kinds=[1, 1, 2, 2], el=[(1, 3, 12), (1, 4, 1)], vec=True, recorded=dict(exc='KeyError'), correct=None),
]


def pinned_d59(ctx):
    if not ctx.open_finding('D59'):
        return
    jobs = [dict(case=dict(m=_net(p['kinds'], p['el']), cfg=dict(steps=6, vec=p['vec'], approx=0, form='nodes')), variant=VARIANTS[0])
            for p in PINNED_D59]
    for p, o in zip(PINNED_D59, run_cases(job, jobs, timeout=300)):
        ctx.case(key=['pinned-D59', p['el'], p['vec']])
        col = (p['recorded'].get('col'), p['correct'] and p['correct'].get('col'))
        got = [r[p['recorded']['col']] for r in o['rows']] if 'rows' in o and 'col' in p['recorded'] else None
        if ('exc' in p['recorded'] and o.get('exc') == p['recorded']['exc']) or (got is not None and got == p['recorded']['rows']):
            ctx.known_hit('D59', dict(case=dict(edges=p['el'], vec=p['vec']), observed=got or o.get('exc')))
        elif 'rows' in o and p['correct'] and [r[p['correct']['col']] for r in o['rows']] == p['correct']['rows']:
            ctx.notes.setdefault('pinned_no_longer_failing', []).append(['D59', p['el'], p['vec']])
        elif 'rows' in o and p['correct'] is None:
            ctx.notes.setdefault('pinned_no_longer_failing', []).append(['D59', p['el'], p['vec']])
        else:
            ctx.violation(dict(kind='conformance', what='pinned reproducer of D59 fails differently from the recorded finding',
                               case=dict(edges=p['el'], vec=p['vec']), observed=o, recorded=p['recorded']))


def reference_solution(case):
    """the explicit augmented linear system x' = A x + b (own chain per edge) integrated with scipy at tight tolerance"""
    import numpy as np
    from scipy.integrate import solve_ivp
    m = case['m']; n = m['n']
    offs = []; k = n
    for o_ in case['orders']:
        offs.append(k); k += o_
    A = np.zeros((k, k)); b = np.zeros(k)
    for i in range(n):
        A[i, i] = m['a'][i]; b[i] = m['c'][i]
    for q, e in enumerate(m['edges']):
        o_, r = case['orders'][q], case['rates'][q]
        if o_ == 0:
            A[e['t'] - 1, e['s'] - 1] += e['w']; continue
        for st in range(o_):
            z = offs[q] + st
            prev = e['s'] - 1 if st == 0 else z - 1
            A[z, prev] += r; A[z, z] -= r
        A[e['t'] - 1, offs[q] + o_ - 1] += e['w']
    y0 = np.zeros(k); y0[:n] = m['x0']
    T = case['cfg']['steps']
    sol = solve_ivp(lambda t, y: A @ y + b, (0, T), y0, t_eval=np.arange(T, dtype=float), rtol=1e-11, atol=1e-13, method='DOP853')
    return [[float(v) for v in sol.y[:n, i]] for i in range(T)]


def classify(ctx, j, o, exp):
    case = j['case']
    rec = dict(model=case['m'], cfg=case['cfg'], variant=j['variant'], form=j.get('form', 'nodes'), orders=case['orders'], rates=case['rates'])
    for fid, flag in (('D36', 'd36'), ('D50', 'd50')):
        if case.get(flag) and o.get('exc') == 'IndexError' and ctx.open_finding(fid) and j.get('form', 'nodes') == 'nodes':
            ctx.known_hit(fid, dict(case=rec, observed=o.get('msg')))
            return 'known'
    # D36 (extended class, also met in C09): a scalar source variable - no vectorisation, or a node alone in its kind - with
    # a delayed edge and two or more undelayed edges that ride on its buffer: IndexError at the first call; loud
    m, vec = case['m'], case['cfg']['vec']
    bysrc = {}
    for e in m['edges']:
        key = e['s'] if (not vec or m['kind'].count(m['kind'][e['s'] - 1]) == 1) else None
        if key is not None:
            bysrc.setdefault(key, []).append(e)
    riding = any(sum(1 for e in es if e['d'] > 0) >= 1 and sum(1 for e in es if e['d'] == 0) >= 2 for es in bysrc.values())
    if riding and o.get('exc') == 'IndexError' and 'invalid index to scalar' in (o.get('msg') or '') and ctx.open_finding('D36') \
            and j.get('form', 'nodes') == 'nodes':
        ctx.known_hit('D36', dict(case=rec, observed=o.get('msg')))
        return 'known'
    ctx.violation(dict(kind='conformance', what='rows of the user variables vs the explicit gamma-chain system', case=rec, observed=o, expected=exp))
    return 'violation'


def replay(ctx, rec):
    print(json.dumps(rec, indent=1, default=str)[:4000])
    return 1
