"""C08 - extrinsic inputs are applied at the right time to the right unit.  spec/Solver.tla (ExtAt, Interp2)"""
import json
from fractions import Fraction
from . import solver_common as sc
from ..pool import run_cases
from .. import linmodel

FORMS = ['separate', 'col', 'matrix', 'broadcast', 'wild']


def _inputs(m, form, scale, steps):
    """dict target path -> array, realising the per-node ext arrays of the model in the requested form."""
    import numpy as np
    e2 = np.asarray(m['ext'][1], dtype='float64')[:steps] / scale
    e3 = np.asarray(m['ext'][2], dtype='float64')[:steps] / scale if m['ext'][2] else None
    if form == 'separate':
        d = {'n2/lin2/ext': e2}
        if e3 is not None:
            d['n3/lin2/ext'] = e3
    elif form == 'col':            # (N, 1) behaves like (N,)
        d = {'n2/lin2/ext': e2.reshape(-1, 1)}
        if e3 is not None:
            d['n3/lin2/ext'] = e3.reshape(-1, 1)
    elif form == 'matrix':         # (N, n): column i -> i-th addressed node
        d = {'all/lin2/ext': np.stack([e2, e3], axis=1)}
    elif form == 'broadcast':      # 1-D array to several nodes
        d = {'all/lin2/ext': e2}
    elif form == 'wild':           # wildcard that resolves to a single node kind; node 2 and 3 addressed one by one
        d = {'n2/lin2/ext': e2}
        if e3 is not None:
            d['n3/lin2/ext'] = e3
    return d


def forms_for(case):
    m, cfg = case['m'], case['cfg']
    e2, e3 = m['ext'][1], m['ext'][2]
    fs = ['separate', 'col']
    if e3 and e2 != e3 and cfg['vec']:
        fs.append('matrix')
    if e3 and e2 == e3:
        fs.append('broadcast')
    return fs


def job(j):
    import numpy as np, warnings
    warnings.filterwarnings('ignore')
    case, v = j['case'], j['variant']
    m, cfg = case['m'], case['cfg']
    scale = v['scale']
    circ = linmodel.build(m, scale)
    inp = _inputs(m, v['form'], scale, cfg['steps'])
    outs = {f'o{i}': f"n{i}/lin{m['kind'][i - 1]}/x" for i in (1, 2, 3)}
    if j['mode'] == 'run':
        try:
            res = circ.run(cfg['steps'] * scale, scale, inputs=inp, outputs=outs, sampling_step_size=cfg['store'] * scale,
                           solver=cfg['solver'], vectorize=cfg['vec'], verbose=False, clear=True, in_place=False,
                           float_precision=v['precision'])
        except Exception as e:
            import traceback
            return dict(exc=type(e).__name__, msg=str(e)[:300], tb=traceback.format_exc()[-600:])
        rows = np.stack([np.asarray(res[f'o{i}'].values, dtype='float64') for i in (1, 2, 3)], axis=1)
        return dict(index=[float(t) / scale for t in res.index], rows=rows.tolist())
    # adaptive: the compiled function itself, evaluated on the half-knot lattice
    try:
        if j.get('prelude'):      # an adaptive compile with the same number of samples over another time span came first
            from pyrates import clear_frontend_caches
            linmodel.compile_model(m, scale * 2, cfg['vec'], inputs=_inputs(m, v['form'], scale * 2, cfg['steps']), solver='scipy')
            clear_frontend_caches()
        func, args, names, pos = linmodel.compile_model(m, scale, cfg['vec'], inputs=inp, solver='scipy')
        n = cfg['steps']
        T = n * scale
        y = np.zeros(len(np.asarray(args[1]).ravel()), dtype='float64')
        for i in (1, 2, 3):
            y[pos[i]] = m['x0'][i - 1]
        out = {}
        for h in range(-1, 2 * (n - 1) + 2):
            t = h * T / (2 * (n - 1))
            dy = np.array(func(t, y.copy(), *args[2:]), dtype='float64')
            out[h] = [float(dy[pos[i]]) for i in (1, 2, 3)]
        return dict(table=out)
    except Exception as e:
        import traceback
        return dict(exc=type(e).__name__, msg=str(e)[:300], tb=traceback.format_exc()[-600:])


def expected_table(case, scale):
    """dy of the three nodes on the half-knot lattice under the interpolated inputs (instantaneous field)."""
    m = case['m']
    n = case['cfg']['steps']
    y = m['x0']
    out = {}
    for h in range(-1, 2 * (n - 1) + 2):
        row = []
        for i in (1, 2, 3):
            v = Fraction(m['c'][i - 1]) + m['a'][i - 1] * y[i - 1]
            for e in m['edges']:
                if e['t'] == i:
                    v += e['w'] * y[e['s'] - 1]
            tab = case['interp'][i - 1]
            if tab:
                v += Fraction(tab[h + 1], 2)
            row.append(float(v / Fraction(scale)))
        out[h] = row
    return out


def routing_job(case):
    """(N,n) input addressed by a wildcard: which column drives which node (spec/Paths.tla, RoutingM)"""
    import numpy as np, warnings
    from .. import netmodel as nm
    warnings.filterwarnings('ignore')
    cs = case['cs']
    prog = dict(nodes=[dict(kind=k, c=0, a=0, du=0, dv=0) for k in cs['kinds']], edges=[])
    circ = nm.build(prog, hier=cs['hier'], order=cs['order'])
    n = len(case['columns'])
    steps = 3
    arr = np.stack([np.full(steps, float(2 ** (j + 1))) * np.arange(1, steps + 1) for j in range(n)], axis=1)
    key = '/'.join(cs['req']['pats'][0] + ['lin', 'u'])
    outs = {f'o{i + 1}': '/'.join(p + ['lin', 'x']) for i, p in enumerate(case['paths'])}
    try:
        res = circ.run(float(steps), 1.0, inputs={key: arr}, outputs=outs, solver='euler', vectorize=True, verbose=False,
                       clear=True, in_place=False, float_precision='float64')
    except Exception as e:
        import traceback
        return dict(exc=type(e).__name__, msg=str(e)[:300], tb=traceback.format_exc()[-600:])
    return dict(rows={k: [float(v) for v in res[k].values] for k in outs})


def routing_expected(case):
    """node i starts at 100+i; x' = u; column j carries 2^j * (step+1)"""
    exp = {}
    drive = {c['node']: int(c['label'][1]) for c in case['columns']}
    for i in range(1, len(case['cs']['kinds']) + 1):
        x = 100.0 + i
        rows = [x]
        for k in range(1, 3):
            x += (2.0 ** drive[i]) * k if i in drive else 0.0
            rows.append(x)
        exp[f'o{i}'] = rows
    return exp


def routing(ctx, tier):
    from .. import tlc
    sizes = '{3}' if tier == 'quick' else '{3, 4, 5}'
    hiers = '{0, 1}' if tier == 'quick' else '{0, 1, 2}'
    expr = f'{{c \\in InputCases({sizes}, {hiers}) : WellFormedCase(c)}}'
    c = tlc.cfg(constants=dict(Dev=set()), invariants=['ColumnCarriesItsLabel', 'ResolveAgrees', 'Export'])
    r = tlc.run_tlc('Paths', c, workers=16, defs=dict(Cases=expr), mc_extends=['PathsCases'], timeout=3000)
    ctx.add_tlc('design:routing', r, '(N,n) input: P (_add_input edges, _group_edges index lists) = M (column i -> i-th resolved node)')
    if not r['ok']:
        ctx.spec_violation('routing', r)
    cv = tlc.cfg(constants=dict(Dev={'SourceIdxPositional'}), invariants=['ColumnCarriesItsLabel'])
    rv = tlc.run_tlc('Paths', cv, workers=16, defs=dict(Cases='{c \\in InputCases({3}, {0}) : WellFormedCase(c)}'), mc_extends=['PathsCases'])
    ctx.add_tlc('vacuity:SourceIdxPositional', rv, 'must violate')
    if rv['violated'] is None:
        ctx.violation(dict(kind='spec', what='deviation SourceIdxPositional not detected'))
    cases = [x for x in r['exports'].get('CASE', []) if len(x['columns']) >= 2]
    import random
    random.Random(ctx.seed).shuffle(cases)
    mixed = [x for x in cases if len({x['cs']['kinds'][c['node'] - 1] for c in x['columns']}) > 1]
    rest = [x for x in cases if x not in mixed]
    cap = 250 if tier == 'quick' else 4000
    sel = mixed[:int(cap * 0.7)] + rest[:cap - min(len(mixed), int(cap * 0.7))]
    ctx.notes['routing_cases_enumerated'] = len(cases)
    outs = run_cases(routing_job, sel, timeout=300)
    verd = {}
    for cse, o in zip(sel, outs):
        if 'harness_error' in o:
            raise RuntimeError(f'replay failed: {o}')
        ctx.replayed += 1
        ctx.case(key=['routing', cse['cs']], nontrivial=cse in mixed)
        exp = routing_expected(cse)
        if o.get('rows') == exp:
            res = 'pass'
        else:
            ctx.violation(dict(kind='conformance', what='(N,n) input: column i must drive the i-th addressed node',
                               case=dict(routing=cse), observed=o, expected=exp))
            res = 'violation'
        verd[res] = verd.get(res, 0) + 1
    ctx.notes['routing_verdicts'] = verd


def run(ctx):
    tier = ctx.tier
    routing(ctx, tier)
    ctx.rule = ('TLC enumerates input-driven integrator models (input on one node, different inputs on two merged nodes, one '
                'input broadcast to both; with and without converging edges) x length x sampling x solver x vectorize; each '
                'case is run with the input given as (N,), (N,1), (N,n) or broadcast 1-D array and compared exactly; the '
                'adaptive form is checked on the compiled function at every knot, midpoint and outside [0,T]')
    ctx.assumptions += ['input values are powers of two / squares so that every misalignment changes every row',
                        'N-1 is a power of two in the adaptive part so that knots and midpoints are exact floats',
                        '(N,n) inputs only with vectorize=True (the only form the implementation accepts)']
    lens = '{4, 6}' if tier == 'quick' else '{3, 4, 6, 8}'
    cases = sc.tlc_cases(ctx, 'C08', f'C08Cases({lens}, {{1, 2}})')
    res0 = ctx.tlc_runs[-2]
    jobs = []
    variants = [dict(scale=1.0, precision='float64'), dict(scale=0.5, precision='float32'), dict(scale=0.25, precision='float64')]
    k = ctx.seed
    for case in cases:
        for f in forms_for(case):
            k += 1
            jobs.append(dict(case=case, mode='run', variant=dict(variants[k % 3], form=f)))
    acases = sc.tlc_cases(ctx, 'C08adaptive', 'C08Cases({3, 5, 9}, {1})')
    for case in acases:
        if case['cfg']['solver'] != 'euler':
            continue
        for f in forms_for(case):
            k += 1
            jobs.append(dict(case=case, mode='func', variant=dict(scale=[1.0, 0.5, 0.25][k % 3], precision='float64', form=f),
                             prelude=(k % 4 == 1)))
    results = run_cases(job, jobs, timeout=300)
    verd = {}
    for j, obs in zip(jobs, results):
        case, v = j['case'], j['variant']
        if isinstance(obs, dict) and 'harness_error' in obs:
            raise RuntimeError(f'replay failed: {obs}')
        ctx.replayed += 1
        ctx.case(key=[case['m']['ext'], case['m']['edges'], case['cfg'], v, j['mode']], nontrivial=True)
        if j['mode'] == 'run':
            r = sc.judge(ctx, case, v, obs, 'run() rows under extrinsic input')
        else:
            exp = expected_table(case, v['scale'])
            if 'exc' in obs or {int(h): r for h, r in obs['table'].items()} != exp:
                ctx.violation(dict(kind='conformance', what='compiled function under interpolated input (adaptive form)',
                                   case=dict(model=case['m'], cfg=case['cfg'], variant=v), observed=obs, expected=exp))
                r = 'violation'
            else:
                r = 'pass'
        verd[(j['mode'], r)] = verd.get((j['mode'], r), 0) + 1
    ctx.notes['verdicts'] = {f'{a}:{b}': n for (a, b), n in verd.items()}
    for c in cases[3::max(1, len(cases) // 3)][:3]:
        ctx.sample(dict(ext=c['m']['ext'], edges=c['m']['edges'], cfg=c['cfg'], expected_rows=c['expM'][:4]))


def replay(ctx, rec):
    print(json.dumps(rec, indent=1)[:3000])
    return 1
