"""C08 - extrinsic inputs are applied at the right time to the right unit.  spec/Solver.tla (ExtAt, Interp2)"""
import json
from fractions import Fraction
from . import solver_common as sc
from ..pool import run_cases
from .. import linmodel

FORMS = ['separate', 'col', 'matrix', 'broadcast', 'wild']


def _inputs(m, form, scale, steps):
    """dict target path -> array, realising the per-node ext arrays of the model in the requested form."""
    import numpy as np
    e2 = np.asarray(m['ext'][1], dtype='float64')[:steps] / scale
    e3 = np.asarray(m['ext'][2], dtype='float64')[:steps] / scale if m['ext'][2] else None
    if form == 'separate':
        d = {'n2/lin2/ext': e2}
        if e3 is not None:
            d['n3/lin2/ext'] = e3
    elif form == 'col':            # (N, 1) behaves like (N,)
        d = {'n2/lin2/ext': e2.reshape(-1, 1)}
        if e3 is not None:
            d['n3/lin2/ext'] = e3.reshape(-1, 1)
    elif form == 'matrix':         # (N, n): column i -> i-th addressed node
        d = {'all/lin2/ext': np.stack([e2, e3], axis=1)}
    elif form == 'broadcast':      # 1-D array to several nodes
        d = {'all/lin2/ext': e2}
    elif form == 'wild':           # wildcard that resolves to a single node kind; node 2 and 3 addressed one by one
        d = {'n2/lin2/ext': e2}
        if e3 is not None:
            d['n3/lin2/ext'] = e3
    return d


def forms_for(case):
    m, cfg = case['m'], case['cfg']
    e2, e3 = m['ext'][1], m['ext'][2]
    fs = ['separate', 'col']
    if e3 and e2 != e3 and cfg['vec']:
        fs.append('matrix')
    if e3 and e2 == e3:
        fs.append('broadcast')
    return fs


def job(j):
    import numpy as np, warnings
    warnings.filterwarnings('ignore')
    case, v = j['case'], j['variant']
    m, cfg = case['m'], case['cfg']
    scale = v['scale']
    circ = linmodel.build(m, scale)
    inp = _inputs(m, v['form'], scale, cfg['steps'])
    outs = {f'o{i}': f"n{i}/lin{m['kind'][i - 1]}/x" for i in (1, 2, 3)}
    if j['mode'] == 'run':
        try:
            res = circ.run(cfg['steps'] * scale, scale, inputs=inp, outputs=outs, sampling_step_size=cfg['store'] * scale,
                           solver=cfg['solver'], vectorize=cfg['vec'], verbose=False, clear=True, in_place=False,
                           float_precision=v['precision'])
        except Exception as e:
            import traceback
            return dict(exc=type(e).__name__, msg=str(e)[:300], tb=traceback.format_exc()[-600:])
        rows = np.stack([np.asarray(res[f'o{i}'].values, dtype='float64') for i in (1, 2, 3)], axis=1)
        return dict(index=[float(t) / scale for t in res.index], rows=rows.tolist())
    # adaptive: the compiled function itself, evaluated on the half-knot lattice
    try:
        func, args, names, pos = linmodel.compile_model(m, scale, cfg['vec'], inputs=inp, solver='scipy')
        n = cfg['steps']
        T = n * scale
        y = np.zeros(len(np.asarray(args[1]).ravel()), dtype='float64')
        for i in (1, 2, 3):
            y[pos[i]] = m['x0'][i - 1]
        out = {}
        for h in range(-1, 2 * (n - 1) + 2):
            t = h * T / (2 * (n - 1))
            dy = np.array(func(t, y.copy(), *args[2:]), dtype='float64')
            out[h] = [float(dy[pos[i]]) for i in (1, 2, 3)]
        return dict(table=out)
    except Exception as e:
        import traceback
        return dict(exc=type(e).__name__, msg=str(e)[:300], tb=traceback.format_exc()[-600:])


def expected_table(case, scale):
    """dy of the three nodes on the half-knot lattice under the interpolated inputs (instantaneous field)."""
    m = case['m']
    n = case['cfg']['steps']
    y = m['x0']
    out = {}
    for h in range(-1, 2 * (n - 1) + 2):
        row = []
        for i in (1, 2, 3):
            v = Fraction(m['c'][i - 1]) + m['a'][i - 1] * y[i - 1]
            for e in m['edges']:
                if e['t'] == i:
                    v += e['w'] * y[e['s'] - 1]
            tab = case['interp'][i - 1]
            if tab:
                v += Fraction(tab[h + 1], 2)
            row.append(float(v / Fraction(scale)))
        out[h] = row
    return out


def run(ctx):
    tier = ctx.tier
    ctx.rule = ('TLC enumerates input-driven integrator models (input on one node, different inputs on two merged nodes, one '
                'input broadcast to both; with and without converging edges) x length x sampling x solver x vectorize; each '
                'case is run with the input given as (N,), (N,1), (N,n) or broadcast 1-D array and compared exactly; the '
                'adaptive form is checked on the compiled function at every knot, midpoint and outside [0,T]')
    ctx.assumptions += ['input values are powers of two / squares so that every misalignment changes every row',
                        'N-1 is a power of two in the adaptive part so that knots and midpoints are exact floats',
                        '(N,n) inputs only with vectorize=True (the only form the implementation accepts)']
    lens = '{4, 6}' if tier == 'quick' else '{3, 4, 6, 8}'
    cases = sc.tlc_cases(ctx, 'C08', f'C08Cases({lens}, {{1, 2}})')
    res0 = ctx.tlc_runs[-2]
    jobs = []
    variants = [dict(scale=1.0, precision='float64'), dict(scale=0.5, precision='float32'), dict(scale=0.25, precision='float64')]
    k = ctx.seed
    for case in cases:
        for f in forms_for(case):
            k += 1
            jobs.append(dict(case=case, mode='run', variant=dict(variants[k % 3], form=f)))
    acases = sc.tlc_cases(ctx, 'C08adaptive', 'C08Cases({3, 5, 9}, {1})')
    for case in acases:
        if case['cfg']['solver'] != 'euler':
            continue
        for f in forms_for(case):
            k += 1
            jobs.append(dict(case=case, mode='func', variant=dict(scale=[1.0, 0.5, 0.25][k % 3], precision='float64', form=f)))
    results = run_cases(job, jobs, timeout=300)
    verd = {}
    for j, obs in zip(jobs, results):
        case, v = j['case'], j['variant']
        if isinstance(obs, dict) and 'harness_error' in obs:
            raise RuntimeError(f'replay failed: {obs}')
        ctx.replayed += 1
        ctx.case(key=[case['m']['ext'], case['m']['edges'], case['cfg'], v, j['mode']], nontrivial=True)
        if j['mode'] == 'run':
            r = sc.judge(ctx, case, v, obs, 'run() rows under extrinsic input')
        else:
            exp = expected_table(case, v['scale'])
            if 'exc' in obs or {int(h): r for h, r in obs['table'].items()} != exp:
                ctx.violation(dict(kind='conformance', what='compiled function under interpolated input (adaptive form)',
                                   case=dict(model=case['m'], cfg=case['cfg'], variant=v), observed=obs, expected=exp))
                r = 'violation'
            else:
                r = 'pass'
        verd[(j['mode'], r)] = verd.get((j['mode'], r), 0) + 1
    ctx.notes['verdicts'] = {f'{a}:{b}': n for (a, b), n in verd.items()}
    for c in cases[3::max(1, len(cases) // 3)][:3]:
        ctx.sample(dict(ext=c['m']['ext'], edges=c['m']['edges'], cfg=c['cfg'], expected_rows=c['expM'][:4]))


def replay(ctx, rec):
    print(json.dumps(rec, indent=1)[:3000])
    return 1
