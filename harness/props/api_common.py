"""Shared machinery of the Api.tla based checks (C07, C13, C14)."""
import json
from .. import tlc
from ..pool import run_cases
from .. import apiuniverse as au

KNOWN = ['OpCacheKeyedByName', 'NodeCacheSurvives', 'StateStash', 'TemplateCacheByPath']
FINDING_OF = {'OpCacheKeyedByName': 'D08', 'NodeCacheSurvives': 'D09', 'StateStash': 'D40', 'TemplateCacheByPath': 'D23'}
ALL_PROPS = ['ReadOnlyPreservesMeaning', 'OnlyAddressedChange', 'EdgeOverrideOnlyItsEdge', 'LoadYieldsFile', 'ClearModelClears', 'DeriveCopies', 'Derive2Copies']


ALL_CIRCS = {'c1', 'c2', 'c3', 'cy', 'd1', 'd2'}


def tlc_behaviours(ctx, name, calls, maxlen, workers=16, simulate=None, extra=(), circs=None):
    circs = set(circs or ALL_CIRCS)
    c0 = tlc.cfg(constants=dict(Circs=circs, Dev=set(), Calls=set(calls), MaxLen=maxlen), invariants=['HistoryIndependent'],
                 properties=ALL_PROPS, constraints=['Bound'] + list(extra), view='View')
    r0 = tlc.run_tlc('Api', c0, workers=workers, timeout=3000)
    ctx.add_tlc(f'design:{name}', r0, 'Dev={}: P refines M, action properties')
    if not r0['ok']:
        ctx.spec_violation(name, r0)
    c1 = tlc.cfg(constants=dict(Circs=circs, Dev=set(KNOWN), Calls=set(calls), MaxLen=maxlen), invariants=['OnlyKnown'],
                 constraints=['Bound', 'NoStaleNodeCache'] + list(extra), view='View', next='NextExport')
    r1 = tlc.run_tlc('Api', c1, workers=workers, timeout=3000)
    ctx.add_tlc(f'export:{name}', r1, 'Dev=Known: behaviours with expM / expP')
    if not r1['ok']:
        ctx.spec_violation(name + ':known', r1)
    behs = r1['exports'].get('BEH', [])
    if simulate:
        num, depth = simulate
        c2 = tlc.cfg(constants=dict(Circs=circs, Dev=set(KNOWN), Calls=set(calls), MaxLen=depth), invariants=['OnlyKnown', 'ExportSim'], constraints=['NoStaleNodeCache'])
        r2 = tlc.run_tlc('Api', c2, workers=1, simulate=f'num={num}', depth=depth + 1, seed=ctx.seed + 7, timeout=3000)
        ctx.add_tlc(f'simulate:{name}', r2, f'{num} random histories of depth {depth}')
        behs += r2['exports'].get('BEH', [])
    return behs


CY_CALLS = ['compile', 'update_var', 'from_yaml', 'clear_model', 'decorator']


def tlc_behaviours_cy(ctx, maxlen, plain):
    """Deep histories about the circuit loaded from a YAML file (from_yaml / update_var / compile / clear(model)), one
    behaviour per (abstract state, sequence of call kinds): path coverage of the template cache and of clear()."""
    cons = ['Bound', 'OnlyCy'] + (['PlainCalls'] if plain else [])
    c0 = tlc.cfg(constants=dict(Circs={'cy'}, Dev=set(), Calls=set(CY_CALLS), MaxLen=maxlen), invariants=['HistoryIndependent'],
                 properties=ALL_PROPS, constraints=cons, view='ViewSig')
    r0 = tlc.run_tlc('Api', c0, workers=16, timeout=3000)
    ctx.add_tlc('design:yaml-circuit', r0, 'Dev={}: histories of the YAML-loaded circuit, P refines M')
    if not r0['ok']:
        ctx.spec_violation('yaml-circuit', r0)
    c1 = tlc.cfg(constants=dict(Circs={'cy'}, Dev=set(KNOWN), Calls=set(CY_CALLS), MaxLen=maxlen), invariants=['OnlyKnown'],
                 constraints=cons + ['NoStaleNodeCache'], view='ViewSig', next='NextExport')
    r1 = tlc.run_tlc('Api', c1, workers=16, timeout=3000)
    ctx.add_tlc('export:yaml-circuit', r1, 'Dev=Known: one behaviour per abstract state and sequence of call kinds')
    if not r1['ok']:
        ctx.spec_violation('yaml-circuit:known', r1)
    return r1['exports'].get('BEH', [])


PAIR_CALLS = ['compile', 'update_var', 'update_edge', 'derive']


def tlc_behaviours_pair(ctx, maxlen):
    """Histories about c1 and the circuit derived from it (update_var / derive / compile), one behaviour per abstract
    state and sequence of call kinds: aliasing of privately copied node templates between a circuit and its derivative."""
    cons = ['Bound', 'OnlyPair', 'PlainCalls', 'ClearingCompiles']
    c0 = tlc.cfg(constants=dict(Circs={'c1', 'd1'}, Dev=set(), Calls=set(PAIR_CALLS), MaxLen=maxlen), invariants=['HistoryIndependent'],
                 properties=ALL_PROPS, constraints=cons, view='ViewSig')
    r0 = tlc.run_tlc('Api', c0, workers=16, timeout=3000)
    ctx.add_tlc('design:derived-circuit', r0, 'Dev={}: a circuit and its derivative, P refines M')
    if not r0['ok']:
        ctx.spec_violation('derived-circuit', r0)
    c1 = tlc.cfg(constants=dict(Circs={'c1', 'd1'}, Dev=set(KNOWN), Calls=set(PAIR_CALLS), MaxLen=maxlen), invariants=['OnlyKnown'],
                 constraints=cons + ['NoStaleNodeCache'], view='ViewSig', next='NextExport')
    r1 = tlc.run_tlc('Api', c1, workers=16, timeout=3000)
    ctx.add_tlc('export:derived-circuit', r1, 'Dev=Known: one behaviour per abstract state and sequence of call kinds')
    if not r1['ok']:
        ctx.spec_violation('derived-circuit:known', r1)
    return r1['exports'].get('BEH', [])


def vacuity(ctx, calls, dev, maxlen=3):
    c = tlc.cfg(constants=dict(Circs=ALL_CIRCS, Dev={dev}, Calls=set(calls), MaxLen=maxlen), invariants=['HistoryIndependent'],
                properties=ALL_PROPS, constraints=['Bound'], view='View')
    r = tlc.run_tlc('Api', c, workers=8)
    ctx.add_tlc(f'vacuity:{dev}', r, 'the deviation must violate a property')
    if r['violated'] is None:
        ctx.violation(dict(kind='spec', what=f'deviation {dev} is not detected (vacuous)'))
    return r['violated']


def dedupe(behs):
    seen, out = set(), []
    for b in behs:
        k = json.dumps(b['calls'], sort_keys=True)
        if k not in seen:
            seen.add(k); out.append(b)
    return out


def _same(o, units):
    return 'units' in o and o['units'] is not None and [tuple(u) for u in o['units']] == units


def judge_all(ctx, behs, what, cap=None, always=()):
    """`always`: behaviours of the targeted (deep) explorations, replayed whatever the cap"""
    behs = [b for b in behs if 'NodeCacheSurvives' not in b['dev']]
    always = [b for b in always if 'NodeCacheSurvives' not in b['dev']]
    if cap and len(behs) > cap:
        # all one-call histories, and a seeded sample of the longer ones (the thorough tier replays all of them)
        import random
        short = [b for b in behs if len(b['calls']) <= 1]
        rest = [b for b in behs if len(b['calls']) > 1]
        random.Random(ctx.seed).shuffle(rest)
        ctx.notes['behaviours_exported'] = len(behs)
        behs = short + rest[:max(0, cap - len(short))]
        ctx.notes['behaviours_replayed_cap'] = cap
    seen = {json.dumps(b['calls'], sort_keys=True) for b in behs}
    behs = behs + [b for b in always if json.dumps(b['calls'], sort_keys=True) not in seen]
    results = run_cases(au.replay, behs, timeout=300)
    verd = {}
    for b, o in zip(behs, results):
        if 'harness_error' in o:
            raise RuntimeError(f'replay failed: {o}')
        ctx.replayed += 1
        ctx.case(key=b['calls'], nontrivial=len(b['calls']) >= 2)
        expM = au.Universe.canon(b['expM'])
        rec = dict(calls=b['calls'], dev=b['dev'])
        if _same(o, expM):
            r = 'pass'
        else:
            expP = au.Universe.canon(b['expP'])
            fids = [FINDING_OF[d] for d in b['dev'] if d in FINDING_OF]
            predicted_exc = b.get('excP', 'none')
            if predicted_exc != 'none':
                matches = o.get('exc') in ('KeyError', 'ValueError')      # which of the two depends on dict order
            else:
                matches = _same(o, expP) and expP != expM
            if fids and all(ctx.open_finding(f) for f in fids) and matches:
                ctx.known_hit('D40' if 'D40' in fids else fids[0], dict(case=rec, observed=o, expected=expM))
                r = 'known'
            else:
                ctx.violation(dict(kind='conformance', what=what, case=rec, observed=o, expected=expM,
                                   predicted=expP if predicted_exc == 'none' else predicted_exc))
                r = 'violation'
        verd[r] = verd.get(r, 0) + 1
    ctx.notes['verdicts'] = verd
    return verd


def _cmp(c, vec, clr):
    return dict(a='compile', c=c, vec=vec, clr=clr, node=0, var='', val=0)


PINNED_D09 = [
    # vectorised compile into a node cached by an earlier vectorised compile: the earlier circuit's units reappear
    dict(calls=[_cmp('c1', True, False), _cmp('c3', True, False)], expect='extra_units_or_raises', n_expected=2),
    # ... cached by an earlier non-vectorised compile: loud failure
    dict(calls=[_cmp('c1', False, False), _cmp('c1', True, False)], expect='raises', n_expected=3),
]


def pinned_d09(ctx):
    if not ctx.open_finding('D09'):
        return
    outs = run_cases(au.replay, PINNED_D09, timeout=300)
    for p, o in zip(PINNED_D09, outs):
        ctx.case(key=['pinned-D09', p['calls']])
        if p['expect'] in ('raises', 'extra_units_or_raises') and 'exc' in o and o.get('at') == 1:
            ctx.known_hit('D09', dict(case=p['calls'], observed=o))
        elif p['expect'] in ('extra_units', 'extra_units_or_raises') and o.get('units') and len(o['units']) > p['n_expected']:
            ctx.known_hit('D09', dict(case=p['calls'], observed=o))
        elif o.get('units') and len(o['units']) == p['n_expected']:
            ctx.notes.setdefault('pinned_no_longer_failing', []).append(p['calls'])
        else:
            ctx.violation(dict(kind='conformance', what='pinned reproducer of D09 fails differently',
                               case=dict(calls=p['calls']), observed=o))
