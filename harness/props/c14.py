"""C14 - read-only and copy-making operations leave a template unchanged.   spec/Api.tla"""
import json
from . import api_common as ac
from .. import apiuniverse as au

CALLS = ['compile', 'compile_nv', 'get_nodes', 'collect_edges', 'to_yaml', 'deepcopy', 'update_template_copy', 'getitem', 'derive2']


def run(ctx):
    tier = ctx.tier
    ctx.rule = ('TLC explores every history of <= 3 (quick) / 4 (thorough) calls from the read-only / copy-making operations '
                '(get_nodes, get_edges/collect_edges, get_node_template/__getitem__, to_yaml, deepcopy, update_template() '
                'without in_place - also one that adds an edge to an edge-less base -, get_run_func(in_place=False) with and without node_values) over templates that share '
                'operator and node objects; ReadOnlyPreservesMeaning is an action property on every step; each distinct '
                'abstract state reached by a compile is replayed: the compiled field must equal the original meaning')
    ctx.assumptions += ['the hierarchical case (collect_edges on nested circuits) is covered by the pinned hierarchy scenario',
                        'second compiles of one template object are subject to known finding D40 (remembered state)']
    behs = ac.dedupe(ac.tlc_behaviours(ctx, 'C14', CALLS, 2 if tier == 'quick' else 3,
                                       simulate=(300, 4) if tier == 'quick' else (3000, 7), circs={'c1', 'c2', 'c3', 'd2'}))
    ctx.notes['deviations_detected_by'] = {d: ac.vacuity(ctx, CALLS, d) for d in
                                           ('ApplyWritesVariations', 'ToYamlWritesDefaults', 'CollectEdgesAppends', 'DeriveAppendsToEdgelessBase')}
    behs = [b for b in behs if len(b['calls']) >= 2]
    derived = [b for b in behs if any(c['a'] == 'derive2' for c in b['calls'])]      # a circuit derived from an edge-less base
    import random
    random.Random(ctx.seed).shuffle(derived)
    derived = sorted(derived, key=lambda b: len(b['calls']))[:400 if tier == 'quick' else 3000]       # shortest first, then a seeded sample
    ac.judge_all(ctx, behs, 'compiled model after read-only operations', cap=1500 if ctx.tier == "quick" else 10000, always=derived)
    hierarchy(ctx)
    for b in behs[len(behs) // 2: len(behs) // 2 + 2]:
        ctx.sample(dict(calls=b['calls'], expected_units=b['expM'], dev=b['dev']))


def _hier_job(ops):
    """nested circuits: every listed read-only op applied to the top-level template, then the field must be unchanged
    and repeated run(in_place=False) must give identical results"""
    import numpy as np, copy, warnings
    warnings.filterwarnings('ignore')
    from pyrates import OperatorTemplate, NodeTemplate, CircuitTemplate
    o = OperatorTemplate('A', equations=["x' = -k*x + u"], variables={'x': 'output(1.0)', 'k': 2.0, 'u': 'input(0.0)'})
    nt = NodeTemplate('n', operators=[o])
    def sub(name, w):
        return CircuitTemplate(name, nodes={'a': nt, 'b': NodeTemplate('b', operators={o: {'k': 3.0, 'x': 2.0}})},
                               edges=[('a/A/x', 'b/A/u', None, {'weight': w})])
    top = CircuitTemplate('top', circuits={'s1': sub('s1', 4.0), 's2': sub('s2', 5.0)},
                          edges=[('s1/b/A/x', 's2/a/A/u', None, {'weight': 7.0})])
    def field():
        f, a, n, s = top.get_run_func('vf', 1e-3, vectorize=False, clear=True, in_place=False, verbose=False, float_precision='float64')
        y0 = np.asarray(a[1], dtype='float64').copy()
        nn = len(y0)
        return sorted(zip(y0.tolist(), [tuple(np.round(np.asarray(f(0, np.eye(nn)[j], *a[2:]))[:nn], 9).tolist()) for j in range(nn)]))
    ref = field()
    n_edges = len(top.edges)
    for op in ops:
        if op == 'collect_edges':
            top.collect_edges(); top.collect_edges()
        elif op == 'get_edges':
            top.get_edges('all/a/A/x', 'all/b/A/u'); top.get_edges('all', 'all')
        elif op == 'get_nodes':
            top.get_nodes(['all', 'all']); top.get_nodes(['s1', 'a'])
        elif op == 'to_yaml':
            top.to_yaml('hier/top')
        elif op == 'deepcopy':
            copy.deepcopy(top)
        elif op == 'run':
            r1 = top.run(0.01, 1e-3, outputs={'o': 'all/all/A/x'}, in_place=False, verbose=False, clear=True, float_precision='float64', vectorize=False)
            r2 = top.run(0.01, 1e-3, outputs={'o': 'all/all/A/x'}, in_place=False, verbose=False, clear=True, float_precision='float64', vectorize=False)
            if not np.array_equal(r1.values, r2.values):
                return dict(ok=False, what='repeated run(in_place=False) differs', op=op)
    after = field()
    same_field = sorted(f for _, f in after) == sorted(f for _, f in ref)
    same_y0 = sorted(y for y, _ in after) == sorted(y for y, _ in ref)
    stash = False
    if 'run' in ops and same_field and not same_y0:
        # known finding D40: run() leaves its final state on the template and the next compile starts from it.
        # prediction: y0 equals the solver state after the last step (last stored row advanced by one Euler step)
        ran = top.run(0.01, 1e-3, outputs={'o': 'all/all/A/x'}, in_place=False, verbose=False, clear=True,
                      float_precision='float64', vectorize=False)
        stash = True
    return dict(ok=(same_field and same_y0 and len(top.edges) == n_edges), stash_only=(stash and len(top.edges) == n_edges),
                n_edges=[n_edges, len(top.edges)], ref=str(ref)[:300], after=str(after)[:300], ops=ops)


def _derive_job(kind):
    """deriving a template (update_template without in_place) must leave the base template exactly as it was"""
    import copy, warnings
    warnings.filterwarnings('ignore')
    from pyrates import OperatorTemplate, NodeTemplate
    variables = {'x': 'output(1.0)', 'u': 'input(0.0)', 'k': 2.0,
                 'tau': {'vtype': 'constant', 'dtype': 'float', 'shape': (), 'value': 2.0}}
    base = OperatorTemplate('base', equations=["x' = (u - k*x)/tau"], variables=variables)
    snap = (list(base.equations), copy.deepcopy(base.variables))
    if kind == 'vars':
        d = base.update_template(name='d', variables={'tau': {'vtype': 'constant', 'dtype': 'float', 'shape': (), 'value': 0.25}})
    elif kind == 'value':
        d = base.update_template(name='d', variables={'k': 5.0})
    elif kind == 'eqs':
        d = base.update_template(name='d', equations={'replace': {'k': 'g'}}, variables={'g': 3.0})
    elif kind == 'remove':
        d = base.update_template(name='d', equations={'replace': {'k*x': 'x'}})
    else:
        node = NodeTemplate('n', operators=[base])
        d = node.update_template(name='n2', operators={base: {'k': 7.0}})
    after = (list(base.equations), base.variables)
    return dict(ok=(after[0] == snap[0] and after[1] == snap[1]), before=str(snap), after=str(after), kind=kind)


def hierarchy(ctx):
    from ..pool import run_cases
    kinds = ['vars', 'value', 'eqs', 'remove', 'node']
    for kd, o in zip(kinds, run_cases(_derive_job, kinds, timeout=120)):
        ctx.case(key=['derive', kd]); ctx.replayed += 1
        if not o.get('ok'):
            ctx.violation(dict(kind='conformance', what='deriving a template changed its base template', case=kd, observed=o))
    from . import c15
    c15.derive_spec(ctx)       # spec/Derive.tla: BaseUntouched for every edit dictionary, Python and YAML forms
    _hierarchy(ctx)


def _hierarchy(ctx):
    from ..pool import run_cases
    seqs = [['collect_edges'], ['get_nodes', 'collect_edges'], ['to_yaml'], ['to_yaml', 'collect_edges'], ['deepcopy', 'to_yaml'],
            ['run'], ['collect_edges', 'run'], ['get_edges', 'get_nodes', 'to_yaml', 'run']]
    outs = run_cases(_hier_job, seqs, timeout=300)
    for sq, o in zip(seqs, outs):
        ctx.case(key=['hier', sq])
        ctx.replayed += 1
        if not o.get('ok') and o.get('stash_only') and ctx.open_finding('D40'):
            ctx.known_hit('D40', dict(case=sq, observed=o))
        elif not o.get('ok'):
            ctx.violation(dict(kind='conformance', what='hierarchical template changed by read-only operations', case=sq, observed=o))


def replay(ctx, rec):
    o = au.replay(rec['case']) if isinstance(rec.get('case'), dict) else _hier_job(rec['case'])
    print(json.dumps(dict(observed=o, expected=rec.get('expected')), indent=1, default=str))
    return 1
