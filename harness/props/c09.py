"""C09 - discrete edge delays shift the source by round(delay/dt) steps.   spec/Solver.tla (delay pass + ring buffers)"""
import json
from . import solver_common as sc
from ..pool import run_cases
from .. import linmodel

VARIANTS = [dict(scale=1.0, precision='float64', delay_jitter=0.0),
            dict(scale=0.5, precision='float64', delay_jitter=0.25),
            dict(scale=0.25, precision='float32', delay_jitter=-0.25),
            dict(scale=2.0, precision='float64', delay_jitter=0.25, zero_spread=True)]      # Connectivity(..., spread=0.0) written out


def job(j):
    case, v = j['case'], j['variant']
    return linmodel.run_model(case['m'], case['cfg'], scale=v['scale'], precision=v['precision'],
                              delay_jitter=v['delay_jitter'], form=case['cfg'].get('form', 'nodes'), zero_spread=v.get('zero_spread', False))


def run(ctx):
    tier = ctx.tier
    ctx.rule = ('TLC enumerates every ordered edge list (<= 2 quick / 3 thorough edges) over two sources (ramp, exponential) and '
                'two integrator targets with lags in {0,2,3,4} steps and position-dependent weights, x vectorize x kind '
                'assignment x solver; rows of run() compared exactly with the delayed recurrence; non-trivial = at least '
                'one delayed edge')
    ctx.assumptions += ['delays round to >= 2 steps or are absent (shorter delays are neglected by design)',
                        'integer data, dyadic dt: exact comparison; delay jitter of +-dt/4 must not change the lag',
                        'Heun: either second-stage semantics for delayed values is accepted as M']
    if tier == 'quick':
        exprs = [('euler', 'C09Cases(2, {0, 2, 3, 4}, 8, {"euler"}, {<<1, 1, 2, 2>>, <<1, 2, 3, 3>>})'),
                 ('heun', 'C09Cases(1, {0, 2, 3}, 6, {"heun"}, {<<1, 1, 2, 2>>})')]
    else:
        exprs = [('euler', 'C09Cases(3, {0, 2, 3, 4}, 8, {"euler"}, {<<1, 1, 2, 2>>, <<1, 2, 3, 3>>})'),
                 ('heun', 'C09Cases(2, {0, 2, 3}, 6, {"heun"}, {<<1, 1, 2, 2>>, <<1, 2, 3, 3>>})')]
    exprs.append(('pop', 'C09PopCases(%d, {0, 2, 3, 4}, 8, {"euler"}, {<<1, 1, 2, 2>>, <<1, 2, 3, 3>>})' % (2 if tier == 'quick' else 3)))
    exprs.append(('popglobal', 'C09PopGlobalCases({2, 3}, 6)'))
    exprs.append(('threetargets', 'C09ThreeTargetCases(8, {"euler"})'))
    cases = []
    for name, e in exprs:
        cases += sc.tlc_cases(ctx, 'C09' + name, e)
    det = sc.vacuity(ctx, 'C09Cases(2, {0, 3}, 6, {"euler"}, {<<1, 1, 2, 2>>})', 'UndelayedSiblingGetsOneStep')
    det2 = sc.vacuity(ctx, 'C09Cases(1, {0, 3}, 6, {"heun"}, {<<1, 1, 2, 2>>})', 'RollPerRhsCall')
    ctx.notes['deviations_detected_by'] = {'UndelayedSiblingGetsOneStep': det, 'RollPerRhsCall': det2}
    jobs = []
    for k, case in enumerate(cases):
        vs = VARIANTS if tier == 'thorough' and k % 4 == 0 else [VARIANTS[(k + ctx.seed) % len(VARIANTS)]]
        for v in vs:
            if v['precision'] == 'float32' and max([abs(x) for r in case['expM'] + case['expP'] for x in r]) >= 2 ** 21:
                v = dict(v, precision='float64')
            jobs.append(dict(case=case, variant=v))
    results = run_cases(job, jobs, timeout=300)
    verdicts = {}
    for j, obs in zip(jobs, results):
        case, v = j['case'], j['variant']
        if isinstance(obs, dict) and 'harness_error' in obs:
            raise RuntimeError(f'replay failed: {obs}')
        ctx.replayed += 1
        ctx.case(key=[case['m']['edges'], case['m']['kind'], case['cfg'], v],
                 nontrivial=any(e['lag'] for e in case['m']['edges']))
        r = sc.judge(ctx, case, v, obs, 'run() rows vs delayed recurrence')
        verdicts[r] = verdicts.get(r, 0) + 1
    ctx.notes['verdicts'] = verdicts
    # code -> spec: the recorded right-hand-side calls of real runs must be a behaviour of Solver.tla (ring buffers per call)
    import random
    from .. import solvertrace
    sel = list(cases)
    random.Random(ctx.seed).shuffle(sel)
    solvertrace.check(ctx, 'C09', sel, sc.KNOWN_DEVS, sc.FINDING_OF, cap=250 if tier == 'quick' else 2500)
    # pinned reproducer of D36 (class excluded from the enumeration above)
    if ctx.open_finding('D36'):
        m = dict(n=4, c=[2, 0, 0, 0], a=[0, 2, 0, 0], x0=[0, 1, 0, 7], ext=[[], [], [], []], kind=[1, 1, 2, 2],
                 edges=[dict(s=1, t=3, w=2, lag=2), dict(s=1, t=3, w=6, lag=3)])
        cfgp = dict(steps=6, store=1, cut=0, solver='euler', vec=False)
        o = run_cases(job, [dict(case=dict(m=m, cfg=cfgp), variant=VARIANTS[0])])[0]
        ctx.case(key='pinned-D36')
        exp = [[0, 1, 0, 7], [2, 3, 0, 7], [4, 9, 0, 7], [6, 27, 0, 7], [8, 81, 4, 7], [10, 243, 12 + 12, 7]]
        if o.get('exc') == 'IndexError' and 'invalid index to scalar' in o.get('msg', ''):
            ctx.known_hit('D36', dict(case=cfgp, observed=o))
        elif o.get('rows') == [[float(v) for v in r] for r in exp]:
            ctx.notes.setdefault('pinned_no_longer_failing', []).append('D36')
        else:
            ctx.violation(dict(kind='conformance', what='pinned reproducer of D36 fails differently', case=dict(model=m, cfg=cfgp, variant=VARIANTS[0]), observed=o, expected=exp))
    for c in cases[5::max(1, len(cases) // 3)][:3]:
        ctx.sample(dict(edges=c['m']['edges'], kind=c['m']['kind'], cfg=c['cfg'], expected_rows=c['expM'][:5], dev=c['dev']))


def replay(ctx, rec):
    c = rec['case']
    obs = linmodel.run_model(c['model'], c['cfg'], **c['variant'])
    print(json.dumps(dict(observed=obs, expected=rec.get('expected')), indent=1))
    return 0 if obs == rec.get('expected') else 1
