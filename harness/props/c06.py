"""C06 - a variable path addresses the same variable everywhere.   spec/Paths.tla"""
import json, random
from .. import tlc
from ..pool import run_cases
from .. import netmodel as nm


def job(case):
    import numpy as np, warnings
    warnings.filterwarnings('ignore')
    cs = case['cs']
    n = len(cs['kinds'])
    prog = dict(nodes=[dict(kind=k, c=2 * i, a=-i, du=5 + i, dv=7 + i) for i, k in enumerate(cs['kinds'], start=1)], edges=[])
    circ = nm.build(prog, hier=cs['hier'], order=cs['order'])
    req = cs['req']
    opvar = 'lin/x' if req['var'] == 'x' else 'aux/q'
    paths = ['/'.join(p + [opvar]) for p in req['pats']]
    outputs = {f'k{i + 1}': p for i, p in enumerate(paths)} if req['form'] == 'dict' else paths
    try:
        if case.get('prelude'):
            # the same instance was simulated before with the other vectorisation setting (default in_place=True)
            circ.run(2.0, 1.0, outputs=outputs, solver='euler', vectorize=not cs['vec'], verbose=False, clear=True,
                     float_precision='float64')
            res = circ.run(2.0, 1.0, outputs=outputs, solver='euler', vectorize=cs['vec'], verbose=False, clear=True,
                           float_precision='float64')
        else:
            res = circ.run(2.0, 1.0, outputs=outputs, solver='euler', vectorize=cs['vec'], verbose=False, clear=True,
                           in_place=False, float_precision='float64')
    except Exception as e:
        import traceback
        return dict(exc=type(e).__name__, msg=str(e)[:300], tb=traceback.format_exc()[-600:])
    cols = []
    for j, col in enumerate(res.columns):
        label = [str(x) for x in col] if isinstance(col, tuple) else [str(col)]
        v = np.asarray(res.iloc[:, j].values, dtype='float64')
        cols.append(dict(label=label, rows=[float(v[0]), float(v[1])]))
    return dict(columns=cols)


def trajectory(node, var, kinds):
    i = node
    if var == 'x':
        x0 = 100.0 + i
        return [x0, x0 + (2 * i - i * x0 + (5 + i) + 10 * (7 + i))]
    q0 = 300.0 + i
    return [q0, q0 - 3 * q0]


def run(ctx):
    tier = ctx.tier
    ctx.rule = ('TLC enumerates circuits of 3 (4) nodes of kinds L/S x 3 declaration orders x hierarchy depth 0-1 (0-2) x vectorize '
                'x output requests (dict with one or two keys, list with one or two entries; every pattern obtained from a node '
                'path by replacing any subset of levels by all, and the bare all; variable owned by all nodes or only by some); '
                'ColumnCarriesItsLabel (P = M) is checked by TLC; each selected case is run and every column is identified by '
                'its first two rows (distinct initial values, exact Euler step) and compared with the node named in its label')
    ctx.assumptions += ['dict requests mix either single-node keys or multi-node keys, not both (mixed: known finding D39, pinned)',
                        'population outputs (one column per unit) are covered by the C09/C16 population runs']
    expr = '{c \\in PathCases({3}, {0, 1}) : WellFormedCase(c)}' if tier == 'quick' else \
           '{c \\in PathCases({3}, {0, 1, 2}) : WellFormedCase(c)} \\cup {c \\in PathCases({4}, {1}) : WellFormedCase(c)}'
    c = tlc.cfg(constants=dict(Dev=set()), invariants=['ColumnCarriesItsLabel', 'ResolveAgrees', 'Export'])
    r = tlc.run_tlc('Paths', c, workers=16, defs=dict(Cases=expr), mc_extends=['PathsCases'], timeout=3000)
    ctx.add_tlc('design', r, 'P (get_nodes recursion, labels) = M (Resolve, Columns)')
    if not r['ok']:
        ctx.spec_violation('design', r)
    cv = tlc.cfg(constants=dict(Dev={'ListOutputRelabelFirst'}), invariants=['ColumnCarriesItsLabel'])
    rv = tlc.run_tlc('Paths', cv, workers=16, defs=dict(Cases='{c \\in PathCases({3}, {0}) : WellFormedCase(c)}'), mc_extends=['PathsCases'])
    ctx.add_tlc('vacuity:ListOutputRelabelFirst', rv, 'must violate')
    if rv['violated'] is None:
        ctx.violation(dict(kind='spec', what='deviation ListOutputRelabelFirst not detected'))
    cases = r['exports'].get('CASE', [])
    # mixed single/multi dict requests are kept out (D39)
    def mixed(c):
        if c['cs']['req']['form'] != 'dict':
            return False
        sizes = {}
        for col in c['columns']:
            sizes.setdefault(col['label'][0], 0); sizes[col['label'][0]] += 1
        return len(sizes) > 1 and any(v == 1 for v in sizes.values()) and any(v > 1 for v in sizes.values())
    cases = [c for c in cases if not mixed(c) and c['columns']]
    rng = random.Random(ctx.seed)
    nontriv = [c for c in cases if c['nontrivial']]; triv = [c for c in cases if not c['nontrivial']]
    rng.shuffle(nontriv); rng.shuffle(triv)
    cap = 900 if tier == 'quick' else 12000
    sel = nontriv[:int(cap * 0.7)] + triv[:cap - min(len(nontriv), int(cap * 0.7))]
    ctx.notes['cases_enumerated'] = len(cases)
    sel = [dict(c, prelude=(k % 4 == 0)) for k, c in enumerate(sel)]
    outs = run_cases(job, sel, timeout=300)
    verd = {}
    for cse, o in zip(sel, outs):
        if 'harness_error' in o:
            raise RuntimeError(f'replay failed: {o}')
        ctx.replayed += 1
        ctx.case(key=[cse['cs'], cse.get('prelude')], nontrivial=cse['nontrivial'])
        res = judge(ctx, cse, o)
        verd[res] = verd.get(res, 0) + 1
    ctx.notes['verdicts'] = verd
    pinned(ctx)
    ctx.sample(dict(case=sel[0]['cs'], expected_columns=sel[0]['columns']))


def judge(ctx, cse, o):
    kinds = cse['cs']['kinds']
    var = cse['cs']['req']['var']
    if 'exc' in o:
        ctx.violation(dict(kind='conformance', what='run() with outputs raised', case=cse['cs'], observed=o, expected=cse['columns']))
        return 'violation'
    exp = {json.dumps(c['label']): trajectory(c['node'], var, kinds) for c in cse['columns']}
    obs = {json.dumps(c['label']): c['rows'] for c in o['columns']}
    if obs == exp and len(o['columns']) == len(exp):
        return 'pass'
    ctx.violation(dict(kind='conformance', what='column label / trajectory mismatch', case=dict(cse['cs'], prelude=cse.get('prelude', False)),
                       observed=o['columns'], expected=[dict(label=c['label'], node=c['node'], rows=trajectory(c['node'], var, kinds)) for c in cse['columns']]))
    return 'violation'


PINNED_D39 = dict(cs=dict(kinds=['L', 'L', 'L'], order=[1, 2, 3], hier=0, vec=True,
                          req=dict(form='dict', pats=[['n1'], ['all']], var='x')))


def pinned(ctx):
    if not ctx.open_finding('D39'):
        return
    o = run_cases(job, [PINNED_D39])[0]
    ctx.case(key='pinned-D39')
    labels = [c['label'] for c in o.get('columns', [])]
    if ['k1'] in labels and all(len(l) == 3 for l in labels if l != ['k1']):
        ctx.notes.setdefault('pinned_no_longer_failing', []).append('D39')
    elif 'columns' in o and ['k', '1'] == labels[0][:2]:
        ctx.known_hit('D39', dict(observed=labels))
    else:
        ctx.violation(dict(kind='conformance', what='pinned reproducer of D39 fails differently', case=PINNED_D39['cs'], observed=o))


def replay(ctx, rec):
    o = run_cases(job, [dict(cs=rec['case'], prelude=rec['case'].get('prelude', False))])[0]
    print(json.dumps(dict(observed=o, expected=rec.get('expected')), indent=1, default=str))
    return 1
