"""C18 - auto-07p export addresses every parameter and state consistently.   spec/Auto.tla, spec/trace/TraceAuto.tla"""
import json, os, random, re, tempfile, shutil
from .. import tlc
from ..pool import run_cases

PRIMES = [2, 3, 5, 7, 11, 13, 17, 19, 23, 29, 31, 37, 41, 43, 47, 53, 59, 61, 67, 71, 73, 79, 83, 89, 97, 101, 103, 107,
          109, 113, 127, 131, 137, 139, 149, 151, 157, 163, 167, 173, 179, 181, 191, 193, 197, 199, 211, 223, 227, 229]


def use_order(nd, perm):
    o = list(range(1, nd + 1))
    if perm == 1:
        o.reverse()
    elif perm == 2:
        random.Random(1000 + nd).shuffle(o)
    return o


def build(prog):
    from pyrates import OperatorTemplate, NodeTemplate, CircuitTemplate
    nd = prog['nd']
    use = use_order(nd, prog['perm'])
    coef = {j: k + 2 for k, j in enumerate(use)}
    eq = "x' = -x + u" + ''.join(f" + {coef[j]}*p{j}" for j in use)
    shift = prog.get('valshift', 0)      # the model exported first in a process uses other parameter values
    vals_a = {j: PRIMES[j - 1 + shift] for j in range(1, nd + 1)}
    vals_b = {j: PRIMES[nd + j - 1] for j in range(1, nd + 1)}
    w = PRIMES[2 * nd]
    variables = {'x': 'output(1.0)'}
    if prog['perm'] % 2 == 0:
        variables['u'] = 'input(0.0)'
    for j in range(1, nd + 1):
        variables[f'p{j}'] = float(vals_a[j]) if not prog['ovr'] else 1000.0 + j
    if prog['perm'] % 2 == 1:
        variables['u'] = 'input(0.0)'
    op = OperatorTemplate('o', equations=[eq], variables=variables)
    nodes = {'a': NodeTemplate('a', operators={op: {f'p{j}': float(vals_a[j]) for j in vals_a}} if prog['ovr'] else [op])}
    edges = []
    if prog['nodes'] == 2:
        nodes['b'] = NodeTemplate('b', operators={op: dict({f'p{j}': float(vals_b[j]) for j in vals_b}, x=4.0)})   # distinct initial state
        edges.append(('b/o/x', 'a/o/u', None, {'weight': float(w)}) if prog.get('rev') else ('a/o/x', 'b/o/u', None, {'weight': float(w)}))
    circ = CircuitTemplate('c', nodes=nodes, edges=edges)
    decl = [vals_a[j] for j in range(1, nd + 1)] + ([vals_b[j] for j in range(1, nd + 1)] if prog['nodes'] == 2 else [])
    coefs = [dict(row=1, c=coef[j]) for j in range(1, nd + 1)] + \
            ([dict(row=2, c=coef[j]) for j in range(1, nd + 1)] if prog['nodes'] == 2 else [])
    edge = ([dict(row=1, src=2, w=w)] if prog.get('rev') else [dict(row=2, src=1, w=w)]) if prog['nodes'] == 2 else []
    return circ, decl, coefs, edge


def _join_continuations(text):
    out, cur = [], ''
    for line in text.splitlines():
        l = line.rstrip()
        st = l.lstrip()
        if cur:
            st = st[1:] if st.startswith('&') else st
            l = cur + st.lstrip()
            cur = ''
        if l.endswith('&'):
            cur = l[:-1]
            continue
        out.append(l)
    return out


def parse(f90, cfile, func_name):
    lines = _join_continuations(f90)
    art = dict(stpnt=[], parnames=[], call=[], sig=[], dfdp=[], npar=0, ndim=0, unames=[], yinit=[])
    for l in lines:
        m = re.match(r'\s*args\((\d+)\) = ([-+0-9.eEdD]+)(?:_\w+)?\s*! (\S+)', l)
        if m:
            v = float(m.group(2).lower().replace('d', 'e'))
            art['stpnt'].append(dict(slot=int(m.group(1)), val=int(v) if v == int(v) else -1, name=m.group(3)))
        m = re.match(r'\s*y\((\d+)\) = ([-+0-9.eEdD]+)(?:_\w+)?\s*! (\S+)', l)
        if m:
            art['yinit'].append(dict(idx=int(m.group(1)), name=m.group(3)))
        m = re.match(rf'\s*call {func_name}\((.*)\)\s*$', l)
        if m:
            art['call'] = [int(x) for x in re.findall(r'args\((\d+)\)', m.group(1))][1:]   # first: args(14) = time
            art['time_slot'] = int(re.findall(r'args\((\d+)\)', m.group(1))[0])
        m = re.match(rf'\s*subroutine {func_name}\((.*)\)\s*$', l)
        if m:
            art['sig'] = [x.strip() for x in m.group(1).split(',')][3:]                    # after t, y, dy
        m = re.match(r'\s*dfdp\((\d+),\s*(\d+)\) =', l)
        if m:
            art['dfdp'].append(dict(row=int(m.group(1)), slot=int(m.group(2))))
    for l in cfile.splitlines():
        if l.startswith('parnames = '):
            d = eval(l[len('parnames = '):], {})
            art['parnames'] = [dict(slot=int(k), name=str(v)) for k, v in d.items()]
        elif l.startswith('unames = '):
            d = eval(l[len('unames = '):], {})
            art['unames'] = [dict(idx=int(k), name=str(v)) for k, v in d.items()]
        elif l.startswith('NPAR = '):
            art['npar'] = int(l.split('=')[1])
        elif l.startswith('NDIM = '):
            art['ndim'] = int(l.split('=')[1])
    return art


def job(prog):
    import numpy as np, warnings, importlib, sys, glob
    warnings.filterwarnings('ignore')
    circ, decl, coefs, edge = build(prog)
    fname = 'automod'
    kw = {}
    scen = ['ivp']
    if prog['scen'] == 2:
        scen = ['ivp', 'eq', 'lc']
        kw = dict(auto_constants=tuple(scen), NMX=1234)
    try:
        if prog.get('prelude'):      # another model with the same variable names was exported earlier in this process
            other = dict(prog, perm=(prog['perm'] + 1) % 3, ovr=True, prelude=False, valshift=20)
            build(other)[0].get_run_func('vf0', 1e-3, backend='fortran', vectorize=False, verbose=False, auto=True, solver='scipy',
                                         float_precision='float64', file_name='automod0', auto_jac=True, in_place=False)
            from pyrates import clear_frontend_caches
            clear_frontend_caches()
        circ.get_run_func('vf', 1e-3, backend='fortran', vectorize=False, verbose=False, auto=True, solver='scipy',
                          float_precision='float64', file_name=fname, auto_jac=True, in_place=False, **kw)
    except Exception as e:
        import traceback
        return dict(exc=type(e).__name__, msg=str(e)[:400], tb=traceback.format_exc()[-800:])
    f90 = open(fname + '.f90').read()
    arts = []
    for sc in scen:
        a = parse(f90, open('c.' + sc).read(), 'vf')
        a['scenario'] = sc
        arts.append(a)
    # compiled routines: STPNT gives PAR and the state; FUNC evaluated at an integer state with PAR = STPNT
    mod = importlib.import_module(fname)
    nst = prog['nodes']
    args = np.zeros(arts[0]['npar'] + 8)
    y = np.zeros(nst)
    mod.stpnt(y, args, 0.0)
    stp = {k + 1: float(v) for k, v in enumerate(args) if v != 0.0}
    yv = [3, 5][:nst]
    dfdu = np.zeros((nst, nst), order='F'); dfdp = np.zeros((nst, len(args)), order='F')
    dy = mod.func(np.array(yv, dtype='float64'), np.array([1], dtype='int32'), args, 0, dfdu, dfdp)
    out = []
    for a in arts:
        a.update(decl=decl, coef=coefs, edge=edge, y=yv, dy=[int(round(float(v))) if float(v) == round(float(v)) else -999999 for v in dy])
        a['stpnt_compiled_agrees'] = all(abs(stp.get(e['slot'], 0.0) - e['val']) < 1e-9 for e in a['stpnt'])
        a['y_init'] = [float(v) for v in y]
        a['ystp'] = [int(round(float(v))) if float(v) == round(float(v)) else -999999 for v in y]
        a['x0'] = [1, 4][:nst]
        out.append(a)
    return dict(arts=out, nmx_ok=('NMX = 1234' in open('c.' + scen[-1]).read()) if prog['scen'] == 2 else True)


ART_KEYS = ['stpnt', 'parnames', 'call', 'sig', 'dfdp', 'npar', 'ndim', 'unames', 'yinit', 'decl', 'coef', 'y', 'dy', 'edge', 'x0', 'ystp']


def validate(ctx, records, name):
    d = tempfile.mkdtemp(prefix='pyrates-verif-tr-')
    try:
        f = os.path.join(d, 'arts.json')
        with open(f, 'w') as fh:
            json.dump([dict(tid=r['tid'], art={k: r['art'][k] for k in ART_KEYS}) for r in records], fh)
        cfgt = tlc.cfg(constants=dict(Dev=set(), MaxN=0, B0=10, B1=15, Progs=set()), init='TInit', next='TNext',
                       invariants=['Verdict'])
        res = tlc.run_tlc('TraceAuto', cfgt, workers=1, env={'TRACE_FILE': f}, timeout=1200)
    finally:
        shutil.rmtree(d, ignore_errors=True)
    ctx.add_tlc('trace:' + name, res, 'C18 predicates evaluated on parsed artefacts')
    return {v['tid']: v['violated'] for v in res['exports'].get('VERDICT', [])}


def apalache_obligations(ctx):
    """Unbounded slot loop: Apalache discharges the inductive invariant of spec/apalache/AutoLoopInd.tla (initiation,
    consecution, IndInv => Safe, monotonicity) and must find the error in a copy of the module with the historic
    'forgotten offset'.  A tool failure is recorded, not turned into a verdict (the bounded TLC check stands on its own)."""
    import subprocess, time
    root = os.path.dirname(os.path.dirname(os.path.dirname(os.path.abspath(__file__))))
    src = open(os.path.join(root, 'spec', 'apalache', 'AutoLoopInd.tla')).read()
    d = tempfile.mkdtemp(prefix='pyrates-verif-apa-')
    res = {}
    try:
        open(os.path.join(d, 'AutoLoopInd.tla'), 'w').write(src)
        broken = src.replace('last\' = (idx - inc) + (inc + D)', "last' = idx").replace('MODULE AutoLoopInd', 'MODULE AutoLoopBroken')
        open(os.path.join(d, 'AutoLoopBroken.tla'), 'w').write(broken)
        obligations = [('initiation', 'AutoLoopInd', ['--init=Init', '--inv=IndInv', '--length=0'], 'NoError'),
                       ('consecution', 'AutoLoopInd', ['--init=IndInit', '--inv=IndInv', '--length=1'], 'NoError'),
                       ('IndInv=>Safe', 'AutoLoopInd', ['--init=IndInit', '--inv=Safe', '--length=0'], 'NoError'),
                       ('monotone', 'AutoLoopInd', ['--init=MonoInit', '--inv=MonoInv', '--length=1'], 'NoError'),
                       ('vacuity:forgotten-offset', 'AutoLoopBroken', ['--init=IndInit', '--inv=IndInv', '--length=1'], 'Error')]
        for name, mod, args, want in obligations:
            t0 = time.time()
            try:
                p = subprocess.run(['apalache-mc', 'check'] + args + [f'--out-dir={d}/out', mod + '.tla'], cwd=d, text=True,
                                   stdout=subprocess.PIPE, stderr=subprocess.STDOUT, timeout=600)
                out = p.stdout
            except Exception as e:
                out = f'tool failure: {e!r}'
            got = 'NoError' if 'The outcome is: NoError' in out else 'Error' if 'The outcome is: Error' in out else 'unknown'
            res[name] = dict(outcome=got, wall_s=round(time.time() - t0, 1))
            if got == 'unknown':
                continue
            if got != want:
                ctx.violation(dict(kind='spec', what=f'Apalache obligation {name}: expected {want}, got {got}', output=out[-1500:]))
    finally:
        shutil.rmtree(d, ignore_errors=True)
    ctx.notes['apalache_inductive_invariant'] = res


def progs_expr(tier):
    if tier == 'quick':
        return '[nd : {1, 4, 9, 10, 13}, perm : {0, 2}, nodes : {1}, ovr : {FALSE}, scen : {1}] \\cup [nd : {3, 11}, perm : {1}, nodes : {1}, ovr : {FALSE}, scen : {1}, prelude : {TRUE}] \\cup ' \
               '[nd : {3, 5, 8}, perm : {1, 2}, nodes : {2}, ovr : {TRUE}, scen : {2}, rev : BOOLEAN]'
    return '[nd : {1, 2, 4, 8, 9, 10, 11, 14, 20}, perm : {0, 1, 2}, nodes : {1}, ovr : BOOLEAN, scen : {1}] \\cup ' \
           '[nd : {2, 3, 4, 5, 6, 8, 11}, perm : {0, 1, 2}, nodes : {2}, ovr : {TRUE}, scen : {1, 2}, rev : BOOLEAN]'


def run(ctx):
    tier = ctx.tier
    ctx.rule = ('TLC runs the slot-allocation loop for every parameter count 0..40 (design) and for every exported program '
                '(declared parameters per node x order of first use x one/two nodes sharing the operator x defaults/overrides '
                'x scenario selection); each program is exported through get_run_func(backend=fortran, auto=True), the .f90 and '
                'c.* files are parsed into an artefact record, FUNC/STPNT are called through f2py, and TLC evaluates the C18 '
                'predicates on every record; non-trivial = more than 9 PAR entries (crossing the reserved range) or two nodes')
    ctx.assumptions += ['parameter values are pairwise distinct primes: a slot is identified by the value STPNT stores in it',
                        'the position of edge weights and undriven inputs relative to declared parameters is not constrained',
                        'the exported field is checked at one integer state per model (the models are linear)']
    cfg0 = tlc.cfg(constants=dict(Dev=set(), MaxN=40, B0=10, B1=15, Progs=tlc.Raw('MC_Progs')),
                   invariants=['DesignOK', 'LoopInv', 'Export'])
    cfg0 = cfg0.replace('  Progs = MC_Progs\n', '')
    r0 = tlc.run_tlc('Auto', cfg0, workers=1, defs=dict(Progs=progs_expr(tier)), coverage=True)
    ctx.add_tlc('design', r0, 'slot loop for n = 0..40 and all exported programs: artefacts satisfy C18')
    if not r0['ok']:
        ctx.spec_violation('design', r0)
    vac = {}
    for dev, b in (('ForgetOffset', (10, 15)), (None, (11, 14)), (None, (10, 13))):
        c = tlc.cfg(constants=dict(Dev={dev} if dev else set(), MaxN=20, B0=b[0], B1=b[1], Progs=set()), invariants=['DesignOK', 'LoopInv'])
        r = tlc.run_tlc('Auto', c, workers=1)
        vac[f'{dev}:{b}'] = r['violated']
        ctx.add_tlc(f'vacuity:{dev}:{b}', r, 'must violate')
        if r['violated'] is None:
            ctx.violation(dict(kind='spec', what=f'wrong slot loop {dev} {b} not detected'))
    ctx.notes['deviations_detected_by'] = vac
    apalache_obligations(ctx)
    progs = r0['exports'].get('PROG', [])
    results = run_cases(job, [p['prog'] for p in progs], timeout=600)
    records = []
    for p, o in zip(progs, results):
        if 'harness_error' in o:
            raise RuntimeError(f'export failed: {o}')
        ctx.replayed += 1
        ctx.case(key=p['prog'], nontrivial=p['n'] > 9 or p['prog']['nodes'] == 2)
        if 'exc' in o:
            ctx.violation(dict(kind='conformance', what='auto-07p export raised', case=p['prog'], observed=o))
            continue
        for a in o['arts']:
            tid = json.dumps(p['prog'], sort_keys=True) + ':' + a['scenario']
            records.append(dict(tid=tid, art=a, prog=p))
            if not a['stpnt_compiled_agrees'] or not o['nmx_ok'] or a.get('time_slot') != 14:
                ctx.violation(dict(kind='conformance', what='compiled STPNT / constant override / time slot disagree with the files',
                                   case=p['prog'], observed=dict(stpnt_ok=a['stpnt_compiled_agrees'], nmx_ok=o['nmx_ok'], time_slot=a.get('time_slot'))))
    # binding self-test: a corrupted record must be rejected
    import copy
    bad = copy.deepcopy(records[0]); bad['tid'] = 'CORRUPTED'
    bad['art']['parnames'][0]['slot'] += 1
    verdicts = validate(ctx, records + [bad], 'artefacts')
    if not verdicts.get('CORRUPTED'):
        ctx.violation(dict(kind='spec', what='corrupted artefact record accepted'))
    drift = 0
    for r in records:
        v = verdicts.get(r['tid'])
        if v is None:
            raise RuntimeError('no verdict for ' + r['tid'])
        if v:
            ctx.violation(dict(kind='trace', what='exported artefacts violate C18 predicates: ' + ', '.join(v), case=r['prog']['prog'],
                               violated=v, artefacts={k: r['art'][k] for k in ('stpnt', 'parnames', 'call', 'sig', 'npar', 'ndim', 'dy', 'scenario')}))
        else:
            ctx.traces_validated += 1
        if sorted(e['slot'] for e in r['art']['stpnt']) != r['prog']['slots']:
            drift += 1
    ctx.notes['conformance_drift_slot_sets'] = drift
    ctx.sample(dict(prog=records[-1]['prog'], artefacts={k: records[-1]['art'][k] for k in ('stpnt', 'call', 'sig', 'npar', 'dy')}))


def replay(ctx, rec):
    o = run_cases(job, [rec['case']])[0]
    print(json.dumps(o, indent=1)[:4000])
    return 1
