"""C17 - a parameter sweep equals running each parameter set on its own.   spec/Grid.tla"""
import copy, json
from .. import tlc
from ..pool import run_cases
from .. import linmodel

MODELS = {
    1: dict(n=3, c=[2, 0, 4], a=[-2, 0, -4], x0=[1, 3, 5], ext=[[], [], []], kind=[1, 1, 1],
            edges=[dict(s=1, t=2, w=2, lag=0), dict(s=2, t=3, w=4, lag=0), dict(s=3, t=1, w=-2, lag=0)]),
    # four identical units, edges listed against node order (a -> c -> b -> d -> a)
    2: dict(n=4, c=[2, 0, 4, 0], a=[-2, 0, -4, -2], x0=[1, 3, 5, 7], ext=[[], [], [], []], kind=[1, 1, 1, 1],
            edges=[dict(s=1, t=3, w=2, lag=0), dict(s=3, t=2, w=4, lag=0), dict(s=2, t=4, w=6, lag=0), dict(s=4, t=1, w=-2, lag=0)]),
}
MODELS[3] = copy.deepcopy(MODELS[1]); MODELS[3]['edges'][0]['lag'] = 2        # first edge delayed: its delay can be swept
# three identical nodes that linmodel.build(share=True) builds from one NodeTemplate object
MODELS[4] = dict(n=3, c=[2, 2, 2], a=[-2, -2, -2], x0=[1, 1, 1], ext=[[], [], []], kind=[1, 1, 1],
                 edges=[dict(s=1, t=2, w=2, lag=0), dict(s=2, t=3, w=4, lag=0), dict(s=3, t=1, w=-2, lag=0)])
STEPS = 4


def adapt(m, keys, vals):
    m = copy.deepcopy(m)
    for k, v in zip(keys, vals):
        if k == 1:
            m['a'][0] = v
        elif k == 2:
            m['c'] = [v] * m['n']
        elif k == 3:
            m['edges'][0]['w'] = v
        elif k == 4:
            m['a'][0] = v; m['a'][1] = v
        elif k == 5:
            m['edges'][0]['lag'] = int(abs(v))
        elif k == 6:
            m['a'][1] = v
    return m


def param_map(m, keys):
    pm = {}
    for i, k in enumerate(keys):
        name = f'p{i + 1}'
        if k == 1:
            pm[name] = {'nodes': ['n1'], 'vars': ['lin1/a']}
        elif k == 2:
            pm[name] = {'nodes': ['all'], 'vars': ['lin1/c']}
        elif k == 3:
            e = m['edges'][0]
            pm[name] = {'edges': [(f"n{e['s']}/lin1/x", f"n{e['t']}/lin1/u")], 'vars': ['weight']}
        elif k == 4:
            pm[name] = {'nodes': ['n1', 'n2'], 'vars': ['lin1/a']}
        elif k == 5:
            e = m['edges'][0]
            pm[name] = {'edges': [(f"n{e['s']}/lin1/x", f"n{e['t']}/lin1/u")], 'vars': ['delay']}
        elif k == 6:
            pm[name] = {'nodes': ['n2'], 'vars': ['lin1/a']}
    return pm


def job(case):
    import numpy as np, pandas as pd, warnings
    warnings.filterwarnings('ignore')
    from pyrates.utility import grid_search
    cs = case['cs']
    m = copy.deepcopy(MODELS[cs['model']])
    if cs['inp']:
        m['ext'][1] = [2, 4, 8, 16]
    grid = {f'p{i + 1}': [float(abs(x)) if cs['keys'][i] == 5 else float(x) for x in v] for i, v in enumerate(cs['vals'])}
    if cs['index']:
        grid = pd.DataFrame(grid, index=list(cs['index']))
    circ = linmodel.build(m, name='net', share=(cs['model'] == 4))
    inputs = {k: v for k, v in linmodel.inputs_of(m).items()} or None
    try:
        res, table = grid_search(circ, grid, param_map(m, cs['keys']), step_size=1.0, simulation_time=float(STEPS),
                                 outputs={'x': 'all/lin1/x'}, inputs=inputs, permute_grid=cs['permute'], solver='euler',
                                 vectorize=cs['vec'], verbose=False, float_precision='float64', clear=True,
                                 **({'dde_approx': cs['approx']} if cs.get('approx') else {}))
    except Exception as e:
        import traceback
        return dict(exc=type(e).__name__, msg=str(e)[:300], tb=traceback.format_exc()[-700:])
    out = dict(table=[dict(label=str(ix), vals=[float(table.loc[ix, f'p{i + 1}']) for i in range(len(cs['vals']))]) for ix in table.index],
               columns={})
    for col in res.columns:
        key = '|'.join(str(c) for c in col)
        out['columns'][key] = [float(v) for v in res[col].values]
    # the separate runs the property refers to
    sep = {}
    for row in out['table']:
        mm = adapt(m, cs['keys'], row['vals'])
        r = linmodel.run_model(mm, dict(steps=STEPS, store=1, cut=0, solver='euler', vec=cs['vec']),
                               **({'dde_approx': cs['approx']} if cs.get('approx') else {}))
        sep[row['label']] = r
    out['separate'] = sep
    return out


def run(ctx):
    tier = ctx.tier
    ctx.rule = ('TLC enumerates sweeps: parameter maps (node parameter on one node / on all nodes / on two nodes, edge weight, one or two '
                'keys), pairwise and permuted grids, tables with re-ordered integer row labels, with and without extrinsic input, '
                'vectorize on/off; Grid.tla checks that every row of the grid is simulated once under an injective label and that a '
                'label keeps the row the table shows for it; each case is run through grid_search and every result column is compared '
                'exactly with a separate run of the model adapted with the values the returned table maps to that label')
    ctx.assumptions += ['the oracle for the time series is a separate run() of the adapted model (itself checked against Solver.tla in C03)',
                        'linear integer models, Euler, dt = 1: exact comparison']
    c = tlc.cfg(constants=dict(Dev=set()), invariants=['LabelsInjective', 'EveryRowOnce', 'LabelKeepsItsRow', 'Export'])
    r = tlc.run_tlc('Grid', c, workers=4, defs=dict(Cases='GridCases({1, 2}) \\cup EdgeAttrCases \\cup SharedTemplateCases \\cup ApproxDelayCases'), mc_extends=['GridCases'])
    ctx.add_tlc('design', r, 'P (linearize + label-based loop) satisfies M')
    if not r['ok']:
        ctx.spec_violation('design', r)
    cv = tlc.cfg(constants=dict(Dev={'PositionalLookup'}), invariants=['LabelKeepsItsRow'])
    rv = tlc.run_tlc('Grid', cv, workers=4, defs=dict(Cases='GridCases({1})'), mc_extends=['GridCases'])
    ctx.add_tlc('vacuity:PositionalLookup', rv, 'must violate')
    if rv['violated'] is None:
        ctx.violation(dict(kind='spec', what='deviation PositionalLookup not detected'))
    cases = r['exports'].get('CASE', [])
    outs = run_cases(job, cases, timeout=600)
    for cse, o in zip(cases, outs):
        if 'harness_error' in o:
            raise RuntimeError(f'replay failed: {o}')
        ctx.replayed += 1
        ctx.case(key=cse['cs'], nontrivial=True)
        judge(ctx, cse, o)
    ctx.sample(dict(case=cases[0]['cs'], table=cases[0]['table']))


def judge(ctx, cse, o):
    cs = cse['cs']
    if 'exc' in o:
        ctx.violation(dict(kind='conformance', what='grid_search raised', case=cs, observed=o))
        return
    # 1. the returned table: labels and values as the specification's table
    exp_table = [dict(label=f"net_{t['label']}", vals=[float(abs(v)) if cs['keys'][i] == 5 else float(v) for i, v in enumerate(t['vals'])])
                 for t in cse['table']]
    if sorted(o['table'], key=lambda t: t['label']) != sorted(exp_table, key=lambda t: t['label']):
        ctx.violation(dict(kind='conformance', what='returned parameter table differs from the grid', case=cs, observed=o['table'], expected=exp_table))
        return
    # 2. every column under a label equals the separate run with the values the table shows for that label
    m = MODELS[cs['model']]
    bad = []
    for row in o['table']:
        sep = o['separate'][row['label']]
        if 'exc' in sep:
            bad.append(dict(label=row['label'], separate_run=sep)); continue
        for i in range(1, m['n'] + 1):
            key = f"x|{row['label']}|n{i}|lin1/x"
            got = o['columns'].get(key)
            want = [r[i - 1] for r in sep['rows']]
            if got != want:
                bad.append(dict(label=row['label'], node=i, values=row['vals'], grid_search=got, separate_run=want))
    if len(o['columns']) != len(o['table']) * m['n']:
        bad.append(dict(what='number of columns', n=len(o['columns'])))
    if bad:
        ctx.violation(dict(kind='conformance', what='grid_search column differs from the separate run', case=cs, observed=bad[:6], expected='equal'))


def replay(ctx, rec):
    print(json.dumps(rec, indent=1, default=str)[:3000])
    return 1
