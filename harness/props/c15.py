"""C15 - YAML, Python and inherited definitions of a model are equivalent.
spec/Replace.tla (whole-identifier edits), spec/Wiring.tla (Denote as the meaning of a saved / loaded / derived model)"""
import json, random
from .. import tlc
from ..pool import run_cases
from .. import netmodel as nm
from . import c01


# ---------------------------------------------------------------- (A) parser.replace
def replace_job(chunk):
    from pyrates.backend.parser import replace
    bad = []
    for e in chunk:
        got = replace(e['text'], e['term'], 'Q')
        if got != e['expected']:
            bad.append(dict(text=e['text'], term=e['term'], got=got, expected=e['expected']))
    return bad


# ---------------------------------------------------------------- (B) round trip / YAML = Python
def rt_job(j):
    """the program built with the Python classes (one operator object per node, so that no per-node override is needed),
    saved with to_yaml, caches cleared, loaded again: the field of the loaded circuit must equal Denote"""
    import warnings, os
    warnings.filterwarnings('ignore')
    from pyrates import CircuitTemplate, clear_frontend_caches
    p = j['p']
    try:
        if j.get('first'):          # the same relative path held another model before: saved, loaded, caches cleared
            other = dict(p['prog'], nodes=[dict(n, c=n['c'] + 1, a=n['a'] - 1) for n in p['prog']['nodes']],
                         edges=[dict(e, w=e['w'] + 1) for e in p['prog']['edges']])
            build_distinct(other, hier=j['hier']).to_yaml('saved/model_file.yaml')
            CircuitTemplate.from_yaml('saved/model_file/net')
            clear_frontend_caches()
        c = build_distinct(p['prog'], hier=j['hier'], samename=j.get('samename', False))
        c.to_yaml('saved/model_file.yaml')
        clear_frontend_caches()
        c2 = CircuitTemplate.from_yaml('saved/model_file/net')
        out = nm.compile_circuit(c2, p['sv'], j['vec'])
        if j.get('again'):          # save the loaded template once more and load that
            c2b = CircuitTemplate.from_yaml('saved/model_file/net')
            c2b.to_yaml('saved2/model_file.yaml')
            clear_frontend_caches()
            out = nm.compile_circuit(CircuitTemplate.from_yaml('saved2/model_file/net'), p['sv'], j['vec'])
        return out
    except Exception as e:
        import traceback
        return dict(exc=type(e).__name__, msg=str(e)[:300], tb=traceback.format_exc()[-700:])


def build_distinct(prog, hier=0, samename=False):
    """every node gets its own operator templates (names suffixed with the node), values as operator defaults"""
    from pyrates import OperatorTemplate, NodeTemplate, CircuitTemplate, EdgeTemplate
    nodes = {}
    opname = {}
    for n, nd in enumerate(prog['nodes'], start=1):
        ops = []
        for o in nm.KIND_OPS[nd['kind']]:
            name = f'{o}_n{n}'
            opname[(n, o)] = name
            if o == 'lin':
                ops.append(OperatorTemplate(name, equations=["x' = c + a*x + u + 10*v"],
                                            variables={'x': f"output({float(nm.X0['x'] + n)})", 'c': float(nd['c']), 'a': float(nd['a']),
                                                       'u': f"input({float(nd['du'])})", 'v': f"input({float(nd['dv'])})"}))
            elif o == 'prod':
                ops.append(OperatorTemplate(name, equations=["z' = -2*z", "u = 3*z"],
                                            variables={'z': f"variable({float(nm.X0['z'] + n)})", 'u': 'output(0.0)'}))
            else:
                ops.append(OperatorTemplate(name, equations=["q' = -3*q"], variables={'q': f"output({float(nm.X0['q'] + n)})"}))
        nodes[n] = NodeTemplate(f'n{n}', operators=ops)
    eop = OperatorTemplate('eop', equations=["m_out = 3*m_in"], variables={'m_out': 'output(0.0)', 'm_in': 'input(0.0)'})
    etmp = EdgeTemplate('etmp', operators=[eop])
    edges = []
    for e in prog['edges']:
        src = f"{nm.node_path(e['s'], hier)}/{opname[(e['s'], nm.OP_OF_VAR[e['sv']])]}/{e['sv']}"
        tgt = f"{nm.node_path(e['t'], hier)}/{opname[(e['t'], 'lin')]}/{e['tv']}"
        edges.append((src, tgt, etmp if e['tm'] else None, {'weight': float(e['w'])}))
    if hier == 0:
        return CircuitTemplate('net', nodes={f'n{n}': t for n, t in nodes.items()}, edges=edges)
    subs = {}
    for n, t in nodes.items():
        subs.setdefault(f'c{n % 2}', {})[f'n{n}'] = t
    # samename: the sub-circuits differ in content but carry one template name
    return CircuitTemplate('net', circuits={k: CircuitTemplate('col' if samename else k, nodes=v) for k, v in subs.items()}, edges=edges)


# ---------------------------------------------------------------- (C) derived templates
def derive_job(j):
    """an operator derived through YAML `base:` with equation edits: the derived equations must be the token-wise edit"""
    import warnings, os
    warnings.filterwarnings('ignore')
    from pyrates import OperatorTemplate, clear_frontend_caches
    os.makedirs('tmpl', exist_ok=True)
    base_eq = j['eq']
    doc = ["base_op:", "  base: OperatorTemplate", "  equations:", f"    - \"{base_eq}\"", "  variables:"]
    for v in j['vars']:
        doc.append(f"    {v}: {'output(0.5)' if v == j['out'] else 1.5}")
    doc += ["derived_op:", "  base: base_op", "  equations:"]
    if j['edit'] == 'replace':
        doc += ["    replace:", f"      {j['old']}: {j['new']}"]
    elif j['edit'] == 'remove':
        doc += ["    remove:", f"      - \"{j['old']}\""]
    elif j['edit'] == 'append':
        doc += [f"    append: \"{j['new']}\""]
    elif j['edit'] == 'prepend':
        doc += [f"    prepend: \"{j['new']}\""]
    if j.get('newvars'):
        doc.append("  variables:")
        for v in j['newvars']:
            doc.append(f"    {v}: 2.5")
    open('tmpl/ops.yaml', 'w').write('\n'.join(doc) + '\n')
    try:
        clear_frontend_caches()
        d = OperatorTemplate.from_yaml('tmpl/ops/derived_op')
        b = OperatorTemplate.from_yaml('tmpl/ops/base_op')
        return dict(derived=list(d.equations), base=list(b.equations), base_vars=sorted(b.variables), derived_vars=sorted(d.variables))
    except Exception as e:
        import traceback
        return dict(exc=type(e).__name__, msg=str(e)[:300], tb=traceback.format_exc()[-500:])


def derive_spec_job(case):
    """spec/Derive.tla case through OperatorTemplate.update_template and through YAML `base:`: derived equations must be
    the token-wise edit of the parent's plus the added equations verbatim; the parent keeps its equations"""
    import warnings, os, copy
    warnings.filterwarnings('ignore')
    from ruamel.yaml import YAML
    from pyrates import OperatorTemplate, clear_frontend_caches
    ed = case['ed']
    names = ['x', 'r_in', 'k', 'x_v1', 'rr', 'r', 'u', 'g', 'y']
    def decl(eqs):
        txt = ' '.join(eqs)
        return {v: ('output(0.5)' if v == 'x' else 'variable(0.25)' if v in ('x_v1', 'u', 'g') else 1.5) for v in names if v in txt}
    def edit():
        d = {}
        if ed['rep']:
            d['replace'] = {ed['rep'][0]: ed['rep'][1]}
        if ed['rem']:
            d['remove'] = [ed['rem']]
        if ed['app']:
            d['append'] = ed['app']
        if ed['pre']:
            d['prepend'] = ed['pre']
        if ed['add']:
            d['add'] = list(ed['add'])
        return d
    out = {}
    try:
        base = OperatorTemplate('base_op', equations=list(case['base']), variables=decl(case['base']))
        d = base.update_template(name='derived_op', equations=edit(), variables={k: v for k, v in decl(case['derived']).items()
                                                                               if k not in decl(case['base'])} or None)
        out['py'] = dict(derived=list(d.equations), base=list(base.equations))
    except Exception as e:
        out['py'] = dict(exc=type(e).__name__, msg=str(e)[:200])
    try:
        os.makedirs('dtmpl', exist_ok=True)
        doc = {'base_op': {'base': 'OperatorTemplate', 'equations': list(case['base']), 'variables': decl(case['base'])},
               'derived_op': {'base': 'base_op', 'equations': edit(),
                              'variables': {k: v for k, v in decl(case['derived']).items() if k not in decl(case['base'])}}}
        if not doc['derived_op']['variables']:
            del doc['derived_op']['variables']
        with open('dtmpl/ops.yaml', 'w') as f:
            YAML(typ='safe', pure=True).dump(doc, f)
        clear_frontend_caches()
        d = OperatorTemplate.from_yaml('dtmpl/ops/derived_op')
        b = OperatorTemplate.from_yaml('dtmpl/ops/base_op')
        out['yaml'] = dict(derived=list(d.equations), base=list(b.equations))
    except Exception as e:
        out['yaml'] = dict(exc=type(e).__name__, msg=str(e)[:200])
    return out


def _refs_job(order):
    """a YAML circuit whose nodes mix a full dotted reference into a library file and a short reference to a template of
    its own file; both files define a template of that name (k = 1 in the library, k = 5 in the model file)"""
    import os, sys, numpy as np, warnings
    warnings.filterwarnings('ignore')
    from pyrates import CircuitTemplate, clear_frontend_caches
    os.makedirs('ypk', exist_ok=True); open('ypk/__init__.py', 'w').write('')
    open('ypk/lib.yaml', 'w').write('lop:\n  base: OperatorTemplate\n  equations: "x\' = -k*x"\n  variables:\n    x: output(1.0)\n    k: 1.0\n'
                                    'pop:\n  base: NodeTemplate\n  operators:\n    - lop\n')
    entries = dict(full='ypk.lib.pop', short='pop')
    nodes = ''.join(f'    n{i}: {entries[kind]}\n' for i, kind in enumerate(order))
    open('ypk/model.yaml', 'w').write('pop:\n  base: NodeTemplate\n  operators:\n    ypk.lib.lop:\n      k: 5.0\n'
                                      'net:\n  base: CircuitTemplate\n  nodes:\n' + nodes)
    sys.path.insert(0, os.getcwd())
    try:
        clear_frontend_caches()
        c = CircuitTemplate.from_yaml('ypk.model.net')
        f, a, names, svm = c.get_run_func('vf', 1e-3, vectorize=False, verbose=False, clear=True, in_place=False, float_precision='float64')
        dy = np.asarray(f(0, np.ones(len(order)), *a[2:]), dtype='float64')
        return [float(-dy[int(np.ravel(svm[f'n{i}/lop/x'])[0])]) for i in range(len(order))]
    except Exception as e:
        return dict(exc=type(e).__name__, msg=str(e)[:200])


def references(ctx):
    orders = [['full', 'short'], ['short', 'full'], ['full', 'short', 'short'], ['short', 'full', 'short'], ['full', 'full', 'short']]
    for order, o in zip(orders, run_cases(_refs_job, orders, timeout=120)):
        ctx.case(key=['yaml-references', order]); ctx.replayed += 1
        exp = [1.0 if kind == 'full' else 5.0 for kind in order]
        if o != exp:
            ctx.violation(dict(kind='conformance', what='short / dotted template references of a YAML circuit resolve to the wrong file',
                               case=order, observed=o, expected=exp))


def derive_spec(ctx):
    c = tlc.cfg(constants=dict(Dev=set()), invariants=['DerivedIsEdit', 'BaseUntouched', 'Export'])
    r = tlc.run_tlc('Derive', c, workers=8, defs=dict(Cases='DeriveCases'), timeout=1200)
    ctx.add_tlc('derive', r, 'derived equations = token-wise edit + added equations verbatim; parent untouched')
    if not r['ok']:
        ctx.spec_violation('derive', r)
    for dev in ('AddedEquationsEditedToo', 'AddExtendsParentList'):
        rv = tlc.run_tlc('Derive', tlc.cfg(constants=dict(Dev={dev}), invariants=['DerivedIsEdit', 'BaseUntouched']), workers=8,
                         defs=dict(Cases='DeriveCases'))
        ctx.add_tlc(f'vacuity:{dev}', rv, 'must violate')
        if rv['violated'] is None:
            ctx.violation(dict(kind='spec', what=f'deviation {dev} not detected'))
    cases = r['exports'].get('DER', [])
    for cse, o in zip(cases, run_cases(derive_spec_job, cases, timeout=300)):
        if 'harness_error' in o:
            raise RuntimeError(f'replay failed: {o}')
        ctx.replayed += 1
        ctx.case(key=['derive-spec', cse['base'], cse['ed']], nontrivial=cse['nontrivial'])
        exp = dict(derived=cse['derived'], base=cse['base'])
        for form in ('py', 'yaml'):
            if o[form] != exp:
                ctx.violation(dict(kind='conformance', what=f'derived operator ({form} form): equations of the derived / parent template',
                                   case=dict(base=cse['base'], ed=cse['ed'], form=form), observed=o[form], expected=exp))


def run(ctx):
    tier = ctx.tier
    ctx.rule = ('(A) Replace.tla: every equation of <= 4 (5) tokens over identifiers that contain one another and every term: TLC checks '
                'scanner = token-wise substitution and exports the pairs, parser.replace is run on each; (B) programs of Wiring.tla built '
                'with the Python classes, saved with to_yaml, caches cleared, loaded with from_yaml (flat and one hierarchy level, edge '
                'templates, saved twice): the field of the loaded circuit must equal Denote; (C) operator templates derived through '
                'base: with replace / remove / append / prepend edits: derived equations = token-wise edit, base template untouched')
    ctx.assumptions += ['round trip uses one operator object per node; per-node overrides of a shared operator are known findings D54/D55 (pinned)',
                        'YAML = Python: the saved file is the YAML definition of the Python-built model']
    # (A)
    expr = 'TokSeqs(%d, {"r", "rr", "r_in", "x_v1", "x", "m_in", "m_in2", "in"}, {"+", "(", " ", "*", "="})' % (3 if tier == 'quick' else 4)
    # every delimiter of the equation language on either side of an identifier (e.g. r_in^2, m[r], a%r, r<x)
    expr += ' \\cup TokSeqs(3, {"r", "rr", "r_in"}, Delims)' 
    c = tlc.cfg(constants=dict(Dev=set()), invariants=['ReplaceIsWholeIdentifier', 'Export'])
    r = tlc.run_tlc('Replace', c, workers=16, defs=dict(Eqs=expr), timeout=3000)
    ctx.add_tlc('replace', r, 'scanner (P) = token-wise substitution (M)')
    if not r['ok']:
        ctx.spec_violation('replace', r)
    cv = tlc.cfg(constants=dict(Dev={'RestartAtShift'}), invariants=['ReplaceIsWholeIdentifier'])
    rv = tlc.run_tlc('Replace', cv, workers=16, defs=dict(Eqs='TokSeqs(3, {"r", "rr", "r_in"}, {"+", " "})'))
    ctx.add_tlc('vacuity:RestartAtShift', rv, 'must violate')
    if rv['violated'] is None:
        ctx.violation(dict(kind='spec', what='deviation RestartAtShift not detected'))
    eqs = r['exports'].get('EQ', [])
    chunks = [eqs[i:i + 4000] for i in range(0, len(eqs), 4000)]
    for ch, bad in zip(chunks, run_cases(replace_job, chunks, timeout=600)):
        if isinstance(bad, dict):
            raise RuntimeError(str(bad))
        ctx.replayed += len(ch)
        for b in bad[:10]:
            ctx.violation(dict(kind='conformance', what='parser.replace differs from whole-identifier substitution', case=dict(text=b['text'], term=b['term']),
                               observed=b['got'], expected=b['expected']))
    for e in eqs:
        ctx.case(key=[e['text'], e['term']], nontrivial=e['hits'] >= 1)
    ctx.sample(dict(kind='replace', **eqs[len(eqs) // 2]))
    derive_spec(ctx)
    references(ctx)
    # (B)
    progs = c01.tlc_programs(ctx, 'round-trip', 'Programs({"L", "P", "S"}, 1, 2, 2, {FALSE, TRUE})')
    rng = random.Random(ctx.seed); rng.shuffle(progs)
    progs = [p for p in progs if not (p['d43'])][:150 if tier == 'quick' else 3000]
    jobs = [dict(p=p, hier=k % 2, vec=(k % 3 != 0), again=(k % 5 == 0), first=(k % 4 == 1), samename=(k % 2 == 1 and k % 4 == 3)) for k, p in enumerate(progs)]
    jobs = [j for j in jobs if not (j['vec'] and j['p']['d42'])]
    for j, o in zip(jobs, run_cases(rt_job, jobs, timeout=600)):
        if 'harness_error' in o:
            raise RuntimeError(f'replay failed: {o}')
        ctx.replayed += 1
        ctx.case(key=['rt', j['p']['prog'], j['hier'], j['vec'], j['again'], j['first'], j['samename']], nontrivial=True)
        c01.judge(ctx, j['p'], dict(hier=j['hier'], vec=j['vec'], again=j['again'], first=j['first'], samename=j['samename'], form='yaml-round-trip'), o, 'field of the saved and re-loaded circuit vs Denote')
    # (C)
    djobs = derive_cases(tier)
    for j, o in zip(djobs, run_cases(derive_job, djobs, timeout=300)):
        ctx.replayed += 1
        ctx.case(key=['derive', j['eq'], j['edit'], j.get('old'), j.get('new')], nontrivial=True)
        if 'exc' in o or o.get('derived') != [j['expected']] or o.get('base') != [j['eq']] or o.get('base_vars') != sorted(j['vars']):
            ctx.violation(dict(kind='conformance', what='derived operator template differs from the token-wise edit of its base (or the base changed)',
                               case=j, observed=o, expected=dict(derived=[j['expected']], base=[j['eq']], base_vars=sorted(j['vars']))))
    pinned(ctx)


def derive_cases(tier):
    cases = []
    eqs = [("r' = -r + k*rr + r_in", ['r', 'k', 'rr', 'r_in'], 'r'), ("m_in2' = m_in*k - m_in2", ['m_in2', 'm_in', 'k'], 'm_in2'),
           ("x' = (x_v1 - x)*k", ['x', 'x_v1', 'k'], 'x')]
    for eq, vs, out in eqs:
        for old in vs:
            if old == out:
                continue
            new = 'g'
            toks = tokenize(eq)
            exp = ''.join(new if t == old else t for t in toks)
            nv = [v for v in vs if v != old]
            cases.append(dict(eq=eq, vars=vs, out=out, edit='replace', old=old, new=new, expected=exp, newvars=['g']))
        cases.append(dict(eq=eq, vars=vs, out=out, edit='append', new='+ 0.5', expected=f'{eq} + 0.5'))
    cases.append(dict(eq="r' = -r + k*rr + r_in", vars=['r', 'k', 'rr', 'r_in'], out='r', edit='remove', old='+ r_in', expected="r' = -r + k*rr "))
    cases.append(dict(eq="r' = -r + k*rr + r_in", vars=['r', 'k', 'rr', 'r_in'], out='r', edit='remove', old='+ k*rr', expected="r' = -r  + r_in"))
    return cases


def tokenize(eq):
    import re
    return re.findall(r"[A-Za-z_][A-Za-z_0-9]*|.", eq)


def _pin_job(_):
    import warnings
    warnings.filterwarnings('ignore')
    from pyrates import CircuitTemplate, clear_frontend_caches
    prog = dict(nodes=[dict(kind='L', c=2, a=-1, du=0, dv=0), dict(kind='L', c=4, a=-2, du=0, dv=0)],
                edges=[dict(s=1, sv='x', t=2, tv='u', w=2, tm=False)])
    sv = [dict(n=1, v='x'), dict(n=2, v='x')]
    c = nm.build(prog)                        # shared operator, per-node overrides
    ref = nm.compile_circuit(c, sv, False)
    try:
        c.to_yaml('pin/model_file.yaml')
        clear_frontend_caches()
        out = nm.compile_circuit(CircuitTemplate.from_yaml('pin/model_file/net'), sv, False)
        return dict(ref=ref.get('field'), out=out)
    except Exception as e:
        return dict(ref=ref.get('field'), out=dict(exc=type(e).__name__, msg=str(e)[:200]))


def pinned(ctx):
    if not ctx.open_finding('D55'):
        return
    o = run_cases(_pin_job, [0])[0]
    ctx.case(key='pinned-D55')
    out = o.get('out', {})
    if out.get('field') == o.get('ref') and o.get('ref'):
        ctx.notes.setdefault('pinned_no_longer_failing', []).append('D55')
    elif out.get('exc') in ('KeyError', 'PyRatesException'):
        ctx.known_hit('D55', dict(observed=out))
    else:
        ctx.violation(dict(kind='conformance', what='pinned reproducer of D54/D55 fails differently', case='shared operator with per-node overrides, saved and loaded', observed=o))


def replay(ctx, rec):
    print(json.dumps(rec, indent=1, default=str)[:3000])
    return 1
