"""C05 - the equation language means what its arithmetic says.   spec/Expr.tla (trees, Eval, Render), spec/ExprCases.tla"""
import json, random, re
from fractions import Fraction
from .. import tlc
from ..pool import run_cases
from ..exprtree import ev

NAMESETS = [dict(a='a', b='b', c='c'), dict(a='x_v1', b='x', c='x_v2'), dict(a='weight', b='r_in0', c='weight_in'),
            dict(a='r', b='rr', c='r_in'), dict(a='m_in2', b='m_in', c='m'), dict(a='source', b='t1', c='target')]
VALUES = dict(a=3.0, b=-2.0, c=0.5, d=2.0, e=3.0, f=1.0 / 3.0)


def rename(s, names):
    return re.sub(r'\b([abc])\b', lambda m: names[m.group(1)], s)


def job(j):
    import numpy as np, warnings
    warnings.filterwarnings('ignore')
    from pyrates.backend.computegraph import ComputeGraph
    from pyrates.backend.parser import ExpressionParser
    from pyrates import OperatorTemplate, NodeTemplate, CircuitTemplate
    out = []
    for item in j['items']:
        out.append(_eval_one(item))
    return out


def _eval_one(j):
    import numpy as np
    from pyrates.backend.computegraph import ComputeGraph
    from pyrates.backend.parser import ExpressionParser
    from pyrates import OperatorTemplate, NodeTemplate, CircuitTemplate
    names = j['names']
    out = []
    vals = dict(VALUES)
    if j.get('intb'):
        vals['b'] = -2          # an integer-typed parameter
    for s in j['strs']:
        expr = rename(s, names)
        names = dict(names, d='d', e='e', f='f')
        used = [k for k in 'abcdef' if re.search(r'\b' + re.escape(names[k]) + r'\b', expr)]
        res = dict(expr=expr)
        # (a) direct evaluation of the parsed expression
        try:
            cg = ComputeGraph(backend='default')
            args = {names[k]: {'vtype': 'constant', 'value': vals[k], 'dtype': 'int32' if isinstance(vals[k], int) else 'float64', 'shape': ()} for k in used}
            if 'x' in names.values():
                res['direct'] = 'skipped'      # the parser's implicit left-hand side is called x
            else:
                ExpressionParser(expr_str=expr, args=args, cg=cg).parse_expr()
                val = cg.eval_node(cg.var_updates['non-DEs']['x'])
                try:
                    res['direct'] = float(np.asarray(val, dtype='float64').ravel()[0])
                except Exception:
                    res['direct_exc'] = 'NotNumeric: ' + str(val)[:80]
        except Exception as e:
            res['direct_exc'] = f'{type(e).__name__}: {str(e)[:120]}'
        # (b) generated source code of a one-equation operator (both derivative notations)
        try:
            lhs = "d/dt * v_state" if j['ddt'] else "v_state'"
            variables = {'v_state': 'output(0.25)'}
            variables.update({names[k]: vals[k] for k in used})
            op = OperatorTemplate('op', equations=[f'{lhs} = {expr}'], variables=variables)
            c = CircuitTemplate('c', nodes={'n': NodeTemplate('n', operators=[op])})
            f, a, an, svm = c.get_run_func('vf', 1e-3, vectorize=False, verbose=False, clear=True, in_place=False, float_precision='float64')
            res['generated'] = float(np.asarray(f(0, np.array([0.25]), *a[2:])).ravel()[0])
        except Exception as e:
            res['generated_exc'] = f'{type(e).__name__}: {str(e)[:120]}'
        out.append(res)
    return out


def run(ctx):
    tier = ctx.tier
    ctx.rule = ('TLC enumerates expression trees (leaves: three variables and literals 2, 3, -1; + - * / ^ unary minus; depth <= 2 in '
                'thorough, depth <= 1 plus sampled depth 2 in quick; repeated sub-expressions; calls of sin/cos/tanh/exp/sigmoid), '
                'evaluates them exactly over rationals and renders each in four spellings (^ or **, spacing, minimal or redundant '
                'parentheses) and with commuted operands; every rendering, under six variable-name sets (prefix/suffix pairs and names '
                'resembling generated labels), is evaluated by ComputeGraph.eval_node and through the generated function of a '
                'one-equation operator (both derivative notations); both must equal the exact value')
    ctx.assumptions += ['transcendental calls are evaluated by the harness with their NumPy meaning (relative tolerance 1e-12)',
                        'one parameter is integer-typed in a fifth of the cases; NumPy\'s refusal of integer ** negative integer is not counted',
                        'index helpers are checked on a fixed family of vector/matrix expressions against NumPy indexing']
    fam = 'LeafAll \\cup D1(LeafAll) \\cup Rep \\cup PowTrees' + (' \\cup D2' if tier == 'thorough' else '')
    c = tlc.cfg(constants={}, invariants=['CommuteInvariant', 'NegTwice', 'Export'])
    r = tlc.run_tlc('ExprCases', c, workers=16, defs=dict(Trees=fam), timeout=3000)
    ctx.add_tlc('design', r, 'exact values + renderings; commuting operands does not change the value')
    if not r['ok']:
        ctx.spec_violation('design', r)
    exprs = r['exports'].get('EXPR', [])
    if tier == 'quick':
        c2 = tlc.cfg(constants={}, invariants=['CommuteInvariant', 'Export'])
        r2 = tlc.run_tlc('ExprCases', c2, workers=16, defs=dict(Trees='{ Bin(o, x, y) : o \\in {"sub", "div", "mul"}, x \\in {u \\in D1({V("a"), V("b"), L(2)}) : u.k \\in {"sub", "div", "pow", "neg"}}, y \\in {V("a"), L(2)} \\cup D1({V("a"), V("b"), L(-1)}) }'),
                         timeout=3000)
        ctx.add_tlc('depth2-sample', r2, 'precedence-sensitive depth-2 trees')
        d2 = r2['exports'].get('EXPR', [])
        random.Random(ctx.seed).shuffle(d2)
        exprs += d2[:400]
    jobs = []
    for k, e in enumerate(exprs):
        strs = e['strs'] + e['cstrs'] if tier == 'thorough' else [e['strs'][k % 4], e['strs'][(k + 1) % 4], e['cstrs'][k % 2]]
        jobs.append(dict(strs=strs, names=NAMESETS[k % len(NAMESETS)], ddt=(k % 2 == 0), intb=(k % 5 == 0), val=e['val'], tree=e['tree']))
    random.Random(ctx.seed + 1).shuffle(jobs)
    batches = [dict(items=jobs[i:i + 12]) for i in range(0, len(jobs), 12)]      # several expressions per process: history matters
    # the non-commutative compound-operand family once more, all in one process, in both orders
    fam = [dict(j, strs=j['strs'][:1], names=NAMESETS[0], intb=False) for j in jobs if j['tree']['k'] in ('pow', 'sub', 'div')
           and j['tree']['a'][0]['k'] in ('add', 'mul') and j['tree']['b'][0]['k'] in ('add', 'mul')]
    fam.sort(key=lambda j: j['strs'][0])
    batches += [dict(items=fam), dict(items=fam[::-1])]
    outs = run_cases(job, batches, timeout=900)
    verd = {}
    for b, ob in zip(batches, outs):
        if isinstance(ob, dict) and 'harness_error' in ob:
            raise RuntimeError(f'replay failed: {ob}')
        for j, o in zip(b['items'], ob):
            exp = float(Fraction(j['val'][0], j['val'][1]))
            for res in o:
                ctx.replayed += 1
                ctx.case(key=[res['expr'], j.get('intb')], nontrivial=True)
                v = judge(ctx, j, res, exp)
                verd[v] = verd.get(v, 0) + 1
    ctx.notes['verdicts'] = verd
    calls(ctx, tier)
    indexing(ctx)
    ctx.sample(dict(renderings=exprs[5]['strs'], value=exprs[5]['val']))


def judge(ctx, j, res, exp):
    ok = lambda v: v == 'skipped' or (isinstance(v, float) and abs(v - exp) <= 1e-12 * (1 + abs(exp)))
    if ok(res.get('direct')) and ok(res.get('generated')):
        return 'pass'
    if j.get('intb') and 'Integers to negative integer powers' in (res.get('generated_exc', '') + res.get('direct_exc', '')):
        return 'excluded'       # NumPy refuses integer ** negative integer: outside "real-valued variables"
    # recorded loud findings, recognised by their exact failure signature
    d, g = res.get('direct_exc', ''), res.get('generated_exc', '')
    wrong_value = (isinstance(res.get('direct'), float) and not ok(res['direct'])) or (isinstance(res.get('generated'), float) and not ok(res['generated']))
    if not wrong_value:
        sympy_left = any(f"'{k}' object has no attribute 'shape'" in g for k in ('Add', 'Mul', 'int', 'Zero', 'One', 'NegativeOne', 'Integer', 'Rational', 'Float', 'Half')) \
            or 'Cannot convert expression to float' in g
        if (d.startswith('NotNumeric') or not d) and sympy_left and (d or ok(res.get('direct'))) and ctx.open_finding('D53'):
            ctx.known_hit('D53', dict(expr=res['expr'], observed=res)); return 'known'
        if (d.startswith('NameError') or (not d and ok(res.get('direct')))) and g.startswith('NameError') and ctx.open_finding('D29') and _const_call(j.get('tree')):
            ctx.known_hit('D29', dict(expr=res['expr'], observed=res)); return 'known'
    ctx.violation(dict(kind='conformance', what='expression does not evaluate to the value of its arithmetic', case=dict(expr=res['expr'], names=j['names']),
                       observed={k: res.get(k) for k in ('direct', 'generated', 'direct_exc', 'generated_exc') if k in res}, expected=exp))
    return 'violation'


D29_FUNCS = {'sigmoid'}


def _const_call(t):
    """some call whose argument contains no variable (the function is then never registered for the generated module)"""
    if not t:
        return False
    def has_var(u):
        if u['k'] == 'sub' and u['a'] == u['b']:
            return False            # x - x is simplified to 0 before the call is looked at
        return u['k'] == 'var' or any(has_var(c) for c in u['a'] + u['b'])
    # only functions PyRates defines itself are affected (sigmoid); NumPy functions with constant arguments work
    if t['k'] == 'call' and t['n'] in D29_FUNCS and not has_var(t['a'][0]):
        return True
    return any(_const_call(c) for c in t['a'] + t['b'])


def calls(ctx, tier):
    """function calls: trees from ExprCases!Calls, value by the harness evaluator"""
    import itertools
    fam = []
    leaves = [dict(k='var', a=[], b=[], n='a', c=0), dict(k='var', a=[], b=[], n='b', c=0), dict(k='lit', a=[], b=[], n='', c=2)]
    for f in ('sin', 'cos', 'tanh', 'exp', 'sigmoid'):
        for x in leaves:
            fam.append((f'{f}({x["n"] or x["c"]})', dict(k='call', a=[x], b=[], n=f, c=0)))
        for o, sym in (('add', '+'), ('mul', '*'), ('sub', '-')):
            for x, y in itertools.product(leaves[:2], leaves):
                t = dict(k=o, a=[x], b=[y], n='', c=0)
                fam.append((f'{f}({x["n"]} {sym} {y["n"] or y["c"]})', dict(k='call', a=[t], b=[], n=f, c=0)))
                fam.append((f'2*{f}({x["n"]}{sym}{y["n"] or y["c"]}) + a', dict(k='add', a=[dict(k='mul', a=[leaves[2]], b=[dict(k='call', a=[t], b=[], n=f, c=0)], n='', c=0)], b=[leaves[0]], n='', c=0)))
    jobs = [dict(strs=[s], names=NAMESETS[k % len(NAMESETS)], ddt=(k % 2 == 1), tree=t) for k, (s, t) in enumerate(fam)]
    if tier == 'quick':
        jobs = jobs[::2]
    # a call with a constant argument next to a variable (a pure-constant expression is folded as a whole)
    for f in ('sin', 'cos', 'tanh', 'exp', 'sigmoid'):
        cc = dict(k='call', a=[leaves[2]], b=[], n=f, c=0)
        jobs.append(dict(strs=[f'2*{f}(2) + a'], names=NAMESETS[0], ddt=False,
                         tree=dict(k='add', a=[dict(k='mul', a=[leaves[2]], b=[cc], n='', c=0)], b=[leaves[0]], n='', c=0)))
        jobs.append(dict(strs=[f'{f}(2)*b'], names=NAMESETS[1 % len(NAMESETS)], ddt=True, tree=dict(k='mul', a=[cc], b=[leaves[1]], n='', c=0)))
    for j, o in zip(jobs, run_cases(job, [dict(items=[x]) for x in jobs], timeout=600)):
        exp = ev(j['tree'], VALUES)
        for res in o[0]:
            ctx.replayed += 1
            ctx.case(key=[res['expr']], nontrivial=True)
            judge(ctx, j, res, exp)


def _index_job(_):
    import numpy as np, warnings
    warnings.filterwarnings('ignore')
    from pyrates.backend.computegraph import ComputeGraph
    from pyrates.backend.parser import ExpressionParser
    A = np.arange(1.0, 7.0); M = np.arange(1.0, 13.0).reshape(3, 4)
    args = lambda: {'A': {'vtype': 'constant', 'value': A.copy(), 'dtype': 'float64', 'shape': A.shape},
                    'M': {'vtype': 'constant', 'value': M.copy(), 'dtype': 'float64', 'shape': M.shape},
                    'k': {'vtype': 'constant', 'value': 2, 'dtype': 'int32', 'shape': ()}}
    cases = [('index(A, 0)', A[0]), ('index(A, 5)', A[5]), ('index(A, k)', A[2]), ('index_range(A, 1, 4)', A[1:4]), ('index_range(A, k, 5)', A[2:5]),
             ('index_axis(A)', A[:]), ('index_2d(M, 1, 2)', M[1, 2]), ('index_2d(M, k, 0)', M[2, 0]), ('index_axis(M, 1, 1)', M[:, 1]),
             ('index_axis(M, 2, 0)', M[2]), ('2*index(A, 1) + index(A, 2)', 2 * A[1] + A[2]), ('vsum(A)', A.sum()), ('vsum(M)', M.sum()), ('vsum(M*2)', (M * 2).sum()),
             ('vsum(index_axis(M, 1, 1))', M[:, 1].sum()), ('index(A, 1)^2 - index_2d(M, 0, 3)', A[1] ** 2 - M[0, 3])]
    bad = []
    for expr, want in cases:
        try:
            cg = ComputeGraph(backend='default')
            ExpressionParser(expr_str=expr, args=args(), cg=cg).parse_expr()
            got = np.asarray(cg.eval_node(cg.var_updates['non-DEs']['x']))
            if got.shape != np.asarray(want).shape and got.size == np.asarray(want).size:
                got = got.reshape(np.asarray(want).shape)
            if not np.array_equal(got, np.asarray(want)):
                bad.append(dict(expr=expr, got=got.tolist(), want=np.asarray(want).tolist()))
        except Exception as e:
            bad.append(dict(expr=expr, exc=f'{type(e).__name__}: {str(e)[:100]}'))
    return dict(n=len(cases), bad=bad)


def indexing(ctx):
    o = run_cases(_index_job, [0])[0]
    ctx.replayed += o.get('n', 0)
    for b in o.get('bad', []):
        ctx.case(key=['index', b['expr']])
        ctx.violation(dict(kind='conformance', what='index helper differs from NumPy indexing', case=b['expr'], observed=b))


def replay(ctx, rec):
    print(json.dumps(rec, indent=1, default=str)[:3000])
    return 1
