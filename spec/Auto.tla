-------------------------------- MODULE Auto --------------------------------
(***************************************************************************)
(* auto-07p export (pyrates/backend/fortran/fortran_backend.py):           *)
(* PAR-slot allocation and the artefacts that must agree on it.            *)
(*                                                                         *)
(* Layer P: the loop of _auto_param_indices (variables i, inc, out) run    *)
(*   over the argument list after it was reordered to declaration order,   *)
(*   and the artefacts derived from its result (STPNT, parnames, the call  *)
(*   that forwards PAR slots, the subroutine signature, DFDP columns,      *)
(*   NPAR).                                                                *)
(* Layer M: the requirements of C18 as predicates over an *artefact        *)
(*   record* `art` - the same predicates are evaluated on the record P     *)
(*   builds (design check, all n up to MaxN) and on records parsed from    *)
(*   the files PyRates really wrote (trace validation, TraceAuto.tla).     *)
(***************************************************************************)
EXTENDS Integers, Sequences, FiniteSets, TLC, Json

CONSTANTS MaxN,      \* design check: number of parameters 0..MaxN
          Progs,     \* exported programs: [nd, perm, nodes, ovr, scen] (declared parameters per node, order of first use,
                     \* one or two nodes sharing the operator, operator defaults or node overrides, scenario selection)
          B0, B1,    \* _AUTO_BLOCKED_PAR_RANGE
          Dev

Reserved == 11..14   \* slots auto-07p uses itself (PAR(11) period, PAR(14) time, ...)

VARIABLES pc, n, i, inc, out, art, prog
vars == <<pc, n, i, inc, out, art, prog>>

NoArt == [stpnt |-> <<>>, parnames |-> <<>>, call |-> <<>>, sig |-> <<>>, dfdp |-> <<>>, npar |-> 0, ndim |-> 0,
          unames |-> <<>>, yinit |-> <<>>, decl |-> <<>>, coef |-> <<>>, y |-> <<>>, dy |-> <<>>, edge |-> <<>>,
          x0 |-> <<>>, ystp |-> <<>>]

-----------------------------------------------------------------------------
(* Layer P: slot allocation loop *)
NoProg == [nd |-> 0, perm |-> 0, nodes |-> 0, ovr |-> FALSE, scen |-> 0]
(* number of PAR entries of an exported program: declared parameters of every node, the undriven input of the first
   node and, with two nodes, the weight of the connecting edge *)
Total(p) == p.nodes * p.nd + 1 + (IF p.nodes = 2 THEN 1 ELSE 0)
Init == /\ pc = "loop" /\ i = 0 /\ inc = 1 /\ out = <<>> /\ art = NoArt
        /\ \/ n \in 0..MaxN /\ prog = NoProg
           \/ prog \in Progs /\ n = Total(prog)

Step == /\ pc = "loop" /\ i < n
        /\ LET idx == i + inc IN
           IF B0 <= idx /\ idx <= B1
           THEN LET inc2 == inc + (B1 - B0) IN
                /\ inc' = inc2
                /\ out' = Append(out, IF "ForgetOffset" \in Dev THEN idx ELSE (idx - inc) + inc2)
           ELSE /\ inc' = inc /\ out' = Append(out, idx)
        /\ i' = i + 1
        /\ UNCHANGED <<pc, n, art, prog>>

(* artefacts P derives from `out`: parameter k (declaration order) is called Name(k), has value 100 + k *)
Name(k) == k
Emit == /\ pc = "loop" /\ i = n
        /\ pc' = "done"
        /\ art' = [NoArt EXCEPT
              !.stpnt    = [k \in 1..n |-> [slot |-> out[k], val |-> 100 + k, name |-> Name(k)]],
              !.parnames = [k \in 1..n |-> [slot |-> out[k], name |-> Name(k)]],
              !.call     = out,
              !.sig      = [k \in 1..n |-> Name(k)],
              !.dfdp     = [k \in 1..n |-> [row |-> 1, slot |-> out[k]]],
              !.npar     = IF n = 0 THEN 1 ELSE out[n],
              !.decl     = [k \in 1..n |-> 100 + k]]
        /\ UNCHANGED <<n, i, inc, out, prog>>

Next == Step \/ Emit
Spec == Init /\ [][Next]_vars

-----------------------------------------------------------------------------
(* Layer M: C18 as predicates over an artefact record a.
   a.decl = values of the model's declared parameters in declaration order (pairwise distinct: identification
   by value); a.stpnt = <<[slot, val, name]>> in file order; a.parnames = <<[slot, name]>>; a.call = slots in the
   order they are forwarded; a.sig = parameter names of the vector-field routine in signature order. *)
SlotsOf(a)  == {a.stpnt[k].slot : k \in 1..Len(a.stpnt)}
SlotOfVal(a, v) == LET ks == {k \in 1..Len(a.stpnt) : a.stpnt[k].val = v} IN
                   IF Cardinality(ks) = 1 THEN a.stpnt[CHOOSE k \in ks : TRUE].slot ELSE 0
NameAt(a, s) == LET ks == {k \in 1..Len(a.stpnt) : a.stpnt[k].slot = s} IN
                IF ks = {} THEN "?" ELSE a.stpnt[CHOOSE k \in ks : TRUE].name

SlotsInjective(a)     == \A p, q \in 1..Len(a.stpnt) : p # q => a.stpnt[p].slot # a.stpnt[q].slot
SlotsAvoidReserved(a) == \A k \in 1..Len(a.stpnt) : a.stpnt[k].slot \notin Reserved /\ a.stpnt[k].slot >= 1
StpntHoldsValues(a)   == \A d \in 1..Len(a.decl) : SlotOfVal(a, a.decl[d]) # 0      \* every declared value, once
SlotsFollowDeclarationOrder(a) ==
   \A d, e \in 1..Len(a.decl) : d < e => SlotOfVal(a, a.decl[d]) < SlotOfVal(a, a.decl[e])
ParnamesAgree(a) == /\ Len(a.parnames) = Len(a.stpnt)
                    /\ \A k \in 1..Len(a.parnames) : a.parnames[k].slot \in SlotsOf(a)
                                                     /\ NameAt(a, a.parnames[k].slot) = a.parnames[k].name
CallAgrees(a) == /\ Len(a.call) = Len(a.sig)
                 /\ \A k \in 1..Len(a.call) : a.call[k] \in SlotsOf(a) /\ NameAt(a, a.call[k]) = a.sig[k]
DfdpAgrees(a) == \A k \in 1..Len(a.dfdp) : a.dfdp[k].slot \in SlotsOf(a)
NparIsMaxSlot(a) == a.npar = (IF a.stpnt = <<>> THEN 1
                              ELSE CHOOSE m \in SlotsOf(a) : \A s \in SlotsOf(a) : m >= s)
NdimMatches(a) == a.ndim = Len(a.yinit) /\ Len(a.unames) = a.ndim
                  /\ \A k \in 1..Len(a.unames) : a.unames[k].idx = k

(* the exported vector field equals the model's:  x_r' = -x_r + SUM coef*param + SUM w*x_src  evaluated at the
   integer state a.y with the declared parameter values; a.dy is what the compiled FUNC returned for PAR = STPNT *)
SumSeq(s) == LET RECURSIVE F(_)
                 F(j) == IF j = 0 THEN 0 ELSE s[j] + F(j - 1)
             IN F(Len(s))
ExpDy(a, r) == - a.y[r]
               + SumSeq([d \in 1..Len(a.coef) |-> IF a.coef[d].row = r THEN a.coef[d].c * a.decl[d] ELSE 0])
               + SumSeq([e \in 1..Len(a.edge) |-> IF a.edge[e].row = r THEN a.edge[e].w * a.y[a.edge[e].src] ELSE 0])
FieldIsModelField(a) == Len(a.dy) = Len(a.y) /\ \A r \in 1..Len(a.y) : a.dy[r] = ExpDy(a, r)

(* STPNT loads the model's initial state: component r of the state FUNC reads (the layout FieldIsModelField pins down)
   starts at the declared initial value of state variable r; a.ystp is what the compiled STPNT wrote into U *)
StpntStateIsInitialState(a) == a.ystp = a.x0

Preds == <<"SlotsInjective", "SlotsAvoidReserved", "StpntHoldsValues", "SlotsFollowDeclarationOrder", "ParnamesAgree",
           "CallAgrees", "DfdpAgrees", "NparIsMaxSlot">>
Holds(a, p) == CASE p = "SlotsInjective" -> SlotsInjective(a)
                 [] p = "SlotsAvoidReserved" -> SlotsAvoidReserved(a)
                 [] p = "StpntHoldsValues" -> StpntHoldsValues(a)
                 [] p = "SlotsFollowDeclarationOrder" -> SlotsFollowDeclarationOrder(a)
                 [] p = "ParnamesAgree" -> ParnamesAgree(a)
                 [] p = "CallAgrees" -> CallAgrees(a)
                 [] p = "DfdpAgrees" -> DfdpAgrees(a)
                 [] p = "NparIsMaxSlot" -> NparIsMaxSlot(a)
                 [] p = "NdimMatches" -> NdimMatches(a)
                 [] p = "FieldIsModelField" -> FieldIsModelField(a)
                 [] p = "StpntStateIsInitialState" -> StpntStateIsInitialState(a)
Violated(a, ps) == {p \in {ps[k] : k \in 1..Len(ps)} : ~Holds(a, p)}

(* design invariants: the artefacts P builds satisfy M for every n *)
DesignOK == pc = "done" => Violated(art, Preds) = {}
LoopInv  == /\ inc \in {1, 1 + (B1 - B0)}
            /\ Len(out) = i
            /\ \A k \in 1..Len(out) : out[k] \notin B0..(B1 - 1)      \* the jump lands on B1 itself: (10, 15) skips 10..14
            /\ \A k \in 1..Len(out) : out[k] \notin Reserved
            /\ \A p, q \in 1..Len(out) : p < q => out[p] < out[q]
Export == (pc = "done" /\ prog # NoProg) => PrintT(<<"PROG", ToJson([prog |-> prog, n |-> n, slots |-> out])>>)
=============================================================================
