-------------------------------- MODULE Expr --------------------------------
(***************************************************************************)
(* Expression trees of the PyRates equation language (C05, C12, C15):      *)
(* structure, exact evaluation over rationals, rendering as equation text  *)
(* in several spellings, and symbolic differentiation.                     *)
(*                                                                         *)
(* One record shape for every node (TLC compares values of one shape):     *)
(*   [k, a, b, n, c]  k = kind, a / b = child as 0- or 1-element sequence, *)
(*   n = variable or function name, c = integer constant / delay id.       *)
(***************************************************************************)
EXTENDS Integers, Sequences, FiniteSets, TLC

V(n)        == [k |-> "var",  a |-> <<>>,  b |-> <<>>,  n |-> n,  c |-> 0]
L(c)        == [k |-> "lit",  a |-> <<>>,  b |-> <<>>,  n |-> "", c |-> c]
Past(n, d)  == [k |-> "past", a |-> <<>>,  b |-> <<>>,  n |-> n,  c |-> d]      \* past(n, tau_d)
Bin(o, x, y) == [k |-> o,     a |-> <<x>>, b |-> <<y>>, n |-> "", c |-> 0]
Neg(x)      == [k |-> "neg",  a |-> <<x>>, b |-> <<>>,  n |-> "", c |-> 0]
Call(f, x)  == [k |-> "call", a |-> <<x>>, b |-> <<>>,  n |-> f,  c |-> 0]
IsLit(t, c) == t.k = "lit" /\ t.c = c

(* smart constructors: keep derivative trees small *)
Add(x, y) == IF IsLit(x, 0) THEN y ELSE IF IsLit(y, 0) THEN x ELSE Bin("add", x, y)
Sub(x, y) == IF IsLit(y, 0) THEN x ELSE IF IsLit(x, 0) THEN [k |-> "neg", a |-> <<y>>, b |-> <<>>, n |-> "", c |-> 0] ELSE Bin("sub", x, y)
Mul(x, y) == IF IsLit(x, 0) \/ IsLit(y, 0) THEN L(0)
             ELSE IF IsLit(x, 1) THEN y ELSE IF IsLit(y, 1) THEN x ELSE Bin("mul", x, y)
Div(x, y) == IF IsLit(x, 0) THEN L(0) ELSE Bin("div", x, y)
NegS(x) == IF IsLit(x, 0) THEN L(0) ELSE Neg(x)
Pow(x, n) == IF n = 0 THEN L(1) ELSE IF n = 1 THEN x ELSE Bin("pow", x, L(n))

-----------------------------------------------------------------------------
(* exact evaluation over rationals <<num, den>>, den > 0; env: variable name -> rational *)
RECURSIVE Gcd(_, _)
Gcd(m, n) == IF n = 0 THEN (IF m < 0 THEN -m ELSE m) ELSE Gcd(n, m % n)
Norm(q) == LET g == Gcd(IF q[1] < 0 THEN -q[1] ELSE q[1], q[2]) IN
           IF g = 0 THEN <<0, 1>> ELSE <<q[1] \div g, q[2] \div g>>
QAdd(p, q) == Norm(<<p[1] * q[2] + q[1] * p[2], p[2] * q[2]>>)
QSub(p, q) == Norm(<<p[1] * q[2] - q[1] * p[2], p[2] * q[2]>>)
QMul(p, q) == Norm(<<p[1] * q[1], p[2] * q[2]>>)
QDiv(p, q) == IF q[1] > 0 THEN Norm(<<p[1] * q[2], p[2] * q[1]>>) ELSE Norm(<<-(p[1] * q[2]), p[2] * (-q[1])>>)
RECURSIVE QPow(_, _)
QPow(p, n) == IF n = 0 THEN <<1, 1>> ELSE QMul(p, QPow(p, n - 1))
Q(n) == <<n, 1>>

RECURSIVE Eval(_, _)
Eval(t, env) ==
  CASE t.k = "var"  -> env[t.n]
    [] t.k = "lit"  -> Q(t.c)
    [] t.k = "add"  -> QAdd(Eval(t.a[1], env), Eval(t.b[1], env))
    [] t.k = "sub"  -> QSub(Eval(t.a[1], env), Eval(t.b[1], env))
    [] t.k = "mul"  -> QMul(Eval(t.a[1], env), Eval(t.b[1], env))
    [] t.k = "div"  -> QDiv(Eval(t.a[1], env), Eval(t.b[1], env))
    [] t.k = "pow"  -> QPow(Eval(t.a[1], env), Eval(t.b[1], env)[1])        \* exponent: a tree with a small natural value
    [] t.k = "neg"  -> QSub(Q(0), Eval(t.a[1], env))
RECURSIVE Evaluable(_, _)
Evaluable(t, env) ==        \* no calls / past leaves, no division by zero, small exponents
  CASE t.k \in {"var", "lit"} -> TRUE
    [] t.k \in {"add", "sub", "mul"} -> Evaluable(t.a[1], env) /\ Evaluable(t.b[1], env)
    [] t.k = "div" -> Evaluable(t.a[1], env) /\ Evaluable(t.b[1], env) /\ Eval(t.b[1], env)[1] # 0
    [] t.k = "pow" -> Evaluable(t.a[1], env) /\ Evaluable(t.b[1], env) /\ Eval(t.b[1], env)[2] = 1 /\ Eval(t.b[1], env)[1] \in 0..3
    [] t.k = "neg" -> Evaluable(t.a[1], env)
    [] OTHER -> FALSE

-----------------------------------------------------------------------------
(* rendering.  style = [pow : "^" | "**", sp : BOOLEAN (spaces around binary operators), par : BOOLEAN (redundant
   parentheses around every compound operand)] *)
Prec(t) == CASE t.k \in {"var", "lit", "call", "past"} -> 9
             [] t.k = "pow" -> 4 [] t.k = "neg" -> 3 [] t.k \in {"mul", "div"} -> 2 [] OTHER -> 1
Digit(d) == CASE d = 0 -> "0" [] d = 1 -> "1" [] d = 2 -> "2" [] d = 3 -> "3" [] d = 4 -> "4" [] d = 5 -> "5"
              [] d = 6 -> "6" [] d = 7 -> "7" [] d = 8 -> "8" [] d = 9 -> "9"
IntStr(i) == LET RECURSIVE F(_)
                 F(m) == IF m < 10 THEN Digit(m) ELSE F(m \div 10) \o Digit(m % 10)
             IN IF i < 0 THEN "-" \o F(-i) ELSE F(i)
RECURSIVE Render(_, _)
Wrap(t, need, st) == IF need \/ (st.par /\ Prec(t) < 9) THEN "(" \o Render(t, st) \o ")" ELSE Render(t, st)
OpStr(o, st) == LET s == CASE o = "add" -> "+" [] o = "sub" -> "-" [] o = "mul" -> "*" [] o = "div" -> "/" [] o = "pow" -> st.pow
                IN IF st.sp /\ o # "pow" THEN " " \o s \o " " ELSE s
Render(t, st) ==
  CASE t.k = "var"  -> t.n
    [] t.k = "lit"  -> IF t.c < 0 THEN "(" \o IntStr(t.c) \o ")" ELSE IntStr(t.c)
    [] t.k = "past" -> "past(" \o t.n \o ", tau" \o IntStr(t.c) \o ")"
    [] t.k = "call" -> t.n \o "(" \o Render(t.a[1], st) \o ")"
    [] t.k = "neg"  -> "-" \o Wrap(t.a[1], Prec(t.a[1]) <= 3, st)
    [] t.k = "add"  -> Wrap(t.a[1], FALSE, st) \o OpStr("add", st) \o Wrap(t.b[1], Prec(t.b[1]) = 3, st)
    [] t.k = "sub"  -> Wrap(t.a[1], FALSE, st) \o OpStr("sub", st) \o Wrap(t.b[1], Prec(t.b[1]) <= 3 /\ Prec(t.b[1]) # 2, st)
    [] t.k = "mul"  -> Wrap(t.a[1], Prec(t.a[1]) < 2, st) \o OpStr("mul", st) \o Wrap(t.b[1], Prec(t.b[1]) < 2 \/ Prec(t.b[1]) = 3, st)
    [] t.k = "div"  -> Wrap(t.a[1], Prec(t.a[1]) < 2, st) \o OpStr("div", st) \o Wrap(t.b[1], Prec(t.b[1]) <= 3, st)
    [] t.k = "pow"  -> Wrap(t.a[1], Prec(t.a[1]) <= 4, st) \o OpStr("pow", st) \o Wrap(t.b[1], Prec(t.b[1]) < 9, st)
Styles == [pow : {"^", "**"}, sp : BOOLEAN, par : BOOLEAN]

-----------------------------------------------------------------------------
(* symbolic derivative w.r.t. a leaf: a variable name (wrt.k = "var") or a delayed variable (wrt.k = "past") *)
RECURSIVE D(_, _)
DCall(f, u, du) ==
  LET inner ==
    CASE f = "sin"     -> Call("cos", u)
      [] f = "cos"     -> NegS(Call("sin", u))
      [] f = "exp"     -> Call("exp", u)
      [] f = "tanh"    -> Sub(L(1), Pow(Call("tanh", u), 2))
      [] f = "sigmoid" -> Mul(Call("sigmoid", u), Sub(L(1), Call("sigmoid", u)))
      [] f = "log"     -> Div(L(1), u)
  IN Mul(inner, du)
D(t, wrt) ==
  CASE t.k = "var"  -> IF wrt.k = "var" /\ wrt.n = t.n THEN L(1) ELSE L(0)
    [] t.k = "past" -> IF wrt.k = "past" /\ wrt.n = t.n /\ wrt.c = t.c THEN L(1) ELSE L(0)
    [] t.k = "lit"  -> L(0)
    [] t.k = "add"  -> Add(D(t.a[1], wrt), D(t.b[1], wrt))
    [] t.k = "sub"  -> Sub(D(t.a[1], wrt), D(t.b[1], wrt))
    [] t.k = "mul"  -> Add(Mul(D(t.a[1], wrt), t.b[1]), Mul(t.a[1], D(t.b[1], wrt)))
    [] t.k = "div"  -> Div(Sub(Mul(D(t.a[1], wrt), t.b[1]), Mul(t.a[1], D(t.b[1], wrt))), Pow(t.b[1], 2))
    [] t.k = "pow"  -> Mul(Mul(L(t.b[1].c), Pow(t.a[1], t.b[1].c - 1)), D(t.a[1], wrt))
    [] t.k = "neg"  -> NegS(D(t.a[1], wrt))
    [] t.k = "call" -> DCall(t.n, t.a[1], D(t.a[1], wrt))

(* substitution of algebraic variables by their defining trees (done before differentiating) *)
RECURSIVE Subst(_, _, _)
Subst(t, name, def) ==
  CASE t.k = "var" -> IF t.n = name THEN def ELSE t
    [] t.k \in {"lit", "past"} -> t
    [] t.k \in {"neg", "call"} -> [t EXCEPT !.a = <<Subst(t.a[1], name, def)>>]
    [] OTHER -> [t EXCEPT !.a = <<Subst(t.a[1], name, def)>>, !.b = <<Subst(t.b[1], name, def)>>]

(* check of D on rational trees: the symmetric difference quotient of a polynomial of degree <= 2 is exact, and for
   any evaluable tree the product/quotient/chain structure must agree with it on such trees *)
RECURSIVE Degree(_, _)
Degree(t, v) == CASE t.k = "var" -> IF t.n = v THEN 1 ELSE 0
                  [] t.k = "lit" -> 0
                  [] t.k \in {"add", "sub"} -> IF Degree(t.a[1], v) > Degree(t.b[1], v) THEN Degree(t.a[1], v) ELSE Degree(t.b[1], v)
                  [] t.k = "mul" -> Degree(t.a[1], v) + Degree(t.b[1], v)
                  [] t.k = "pow" -> IF t.b[1].k = "lit" THEN Degree(t.a[1], v) * t.b[1].c ELSE 99
                  [] t.k = "neg" -> Degree(t.a[1], v)
                  [] OTHER -> 99
DiffQuotient(t, v, env) ==
  QDiv(QSub(Eval(t, [env EXCEPT ![v] = QAdd(env[v], Q(1))]), Eval(t, [env EXCEPT ![v] = QSub(env[v], Q(1))])), Q(2))
DExactOn(t, v, env) == (Degree(t, v) <= 2 /\ Evaluable(t, env)) => Eval(D(t, V(v)), env) = DiffQuotient(t, v, env)
=============================================================================
