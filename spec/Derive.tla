-------------------------------- MODULE Derive --------------------------------
(***************************************************************************)
(* Deriving an operator template (C15: `base:` + equation edits, C14: the  *)
(* base template stays as it was).                                         *)
(*   OperatorTemplate.update_template(equations = {replace, remove,        *)
(*   append, prepend, add})  /  YAML  `base: <parent>` + `equations:`      *)
(* An equation is a token sequence (identifiers and one-character          *)
(* delimiters, as in Replace.tla).  An edit dictionary is                  *)
(*   [rep : <<>> | <<old, new tokens>>, rem : "" | identifier,             *)
(*    app : <<>> | tokens, pre : <<>> | tokens, add : Seq(token sequence)] *)
(* Layer M: every PARENT equation is edited token-wise in the order        *)
(*   replace, remove, append, prepend; the `add` equations are appended    *)
(*   verbatim; the parent template keeps its equations.                    *)
(* Layer P: the same on strings with the scanner of parser.replace; the    *)
(*   deviations are the ways the list handling can go wrong.               *)
(***************************************************************************)
EXTENDS Integers, Sequences, FiniteSets, TLC, Json

CONSTANTS Cases, Dev
VARIABLES cs, pc, baseAfter, derived
vars == <<cs, pc, baseAfter, derived>>

R == INSTANCE Replace WITH Eqs <- {}, Dev <- {}, eq <- <<>>, term <- "", pc <- ""

Ed == cs.ed
Parent == cs.eqs           \* Seq(token sequence)

(* ------------------------------- layer M -------------------------------- *)
RECURSIVE SubstTok(_, _, _)
SubstTok(toks, old, new) == IF toks = <<>> THEN <<>>
                            ELSE (IF Head(toks) = old THEN new ELSE <<Head(toks)>>) \o SubstTok(Tail(toks), old, new)
EditM(toks) ==
  LET e1 == IF Ed.rep = <<>> THEN toks ELSE SubstTok(toks, Ed.rep[1], Ed.rep[2])
      e2 == IF Ed.rem = "" THEN e1 ELSE SubstTok(e1, Ed.rem, <<>>)
      e3 == IF Ed.app = <<>> THEN e2 ELSE e2 \o <<" ">> \o Ed.app
      e4 == IF Ed.pre = <<>> THEN e3 ELSE Ed.pre \o <<" ">> \o e3
  IN e4
DerivedM == [i \in 1..Len(Parent) |-> R!Flat(EditM(Parent[i]))] \o [i \in 1..Len(Ed.add) |-> R!Flat(Ed.add[i])]
BaseM == [i \in 1..Len(Parent) |-> R!Flat(Parent[i])]

(* ------------------------------- layer P -------------------------------- *)
ReplaceStr(txt, oldChars, newChars) ==       \* parser.replace on characters (whole identifiers only)
  LET RECURSIVE Put(_)
      Put(seq) == IF seq = <<>> THEN <<>> ELSE (IF Head(seq) = R!NewTok THEN newChars ELSE <<Head(seq)>>) \o Put(Tail(seq))
  IN Put(R!Scan(txt, oldChars, <<>>, ""))
EditP(txt) ==
  LET e1 == IF Ed.rep = <<>> THEN txt ELSE ReplaceStr(txt, R!Chars(Ed.rep[1]), R!Flat(Ed.rep[2]))
      e2 == IF Ed.rem = "" THEN e1 ELSE ReplaceStr(e1, R!Chars(Ed.rem), <<>>)
      e3 == IF Ed.app = <<>> THEN e2 ELSE e2 \o <<" ">> \o R!Flat(Ed.app)
      e4 == IF Ed.pre = <<>> THEN e3 ELSE R!Flat(Ed.pre) \o <<" ">> \o e3
  IN e4
HasOtherEdits == Ed.rep # <<>> \/ Ed.rem # "" \/ Ed.app # <<>> \/ Ed.pre # <<>>
DerivedP ==
  LET added == [i \in 1..Len(Ed.add) |-> IF "AddedEquationsEditedToo" \in Dev THEN EditP(R!Flat(Ed.add[i])) ELSE R!Flat(Ed.add[i])]
  IN [i \in 1..Len(Parent) |-> EditP(R!Flat(Parent[i]))] \o added
BaseP == IF "AddExtendsParentList" \in Dev /\ ~HasOtherEdits /\ Ed.add # <<>>
         THEN BaseM \o [i \in 1..Len(Ed.add) |-> R!Flat(Ed.add[i])] ELSE BaseM

Init == cs \in Cases /\ pc = "start" /\ baseAfter = <<>> /\ derived = <<>>
Do == pc = "start" /\ pc' = "done" /\ derived' = DerivedP /\ baseAfter' = BaseP /\ UNCHANGED cs
Next == Do
Spec == Init /\ [][Next]_vars

DerivedIsEdit == pc = "done" => derived = DerivedM
BaseUntouched == pc = "done" => baseAfter = BaseM
Join(chars) == LET RECURSIVE F(_)
                   F(i) == IF i > Len(chars) THEN "" ELSE chars[i] \o F(i + 1)
               IN F(1)
Strs(seqs) == [i \in 1..Len(seqs) |-> Join(seqs[i])]
TokStr(toks) == Join(R!Flat(toks))
Export == pc = "done" =>
  PrintT(<<"DER", ToJson([base |-> Strs(BaseM), derived |-> Strs(DerivedM),
                          ed |-> [rep |-> IF Ed.rep = <<>> THEN <<>> ELSE <<Ed.rep[1], TokStr(Ed.rep[2])>>, rem |-> Ed.rem,
                                  app |-> TokStr(Ed.app), pre |-> TokStr(Ed.pre), add |-> [i \in 1..Len(Ed.add) |-> TokStr(Ed.add[i])]],
                          nontrivial |-> (Ed.add # <<>> /\ HasOtherEdits)])>>)

(* ------------------------------ generators ------------------------------ *)
(* parent:  x' = r_in*k - x  and  x_v1' = rr*r+r_in  (one or two equations); identifiers contain one another (r, rr, r_in);
   edits never address an identifier that is followed by the derivative mark ' (not a delimiter of the scanner) *)
P1 == <<"x", "'", " ", "=", " ", "r_in", "*", "k", " ", "-", " ", "x">>
P2 == <<"x_v1", "'", " ", "=", " ", "rr", "*", "r", "+", "r_in">>
Reps == {<<>>, <<"r_in", <<"r_in", "*", "(", "1", "-", "u", ")">>>>, <<"k", <<"g">>>>, <<"r", <<"y">>>>}
Rems == {"", "k"}
Apps == {<<>>, <<"+", " ", "k">>}
Pres == {<<>>}
Adds == {<<>>, << <<"u", "'", " ", "=", " ", "k", "*", "r_in", " ", "-", " ", "u">> >>,
         << <<"u", "'", " ", "=", " ", "x", "-", "u">>, <<"g", "'", " ", "=", " ", "r", "-", "g">> >>}
DeriveCases == { [eqs |-> ps, ed |-> [rep |-> rp, rem |-> rm, app |-> ap, pre |-> pr, add |-> ad]] :
                   ps \in {<<P1>>, <<P1, P2>>}, rp \in Reps, rm \in Rems, ap \in Apps, pr \in Pres \cup {<<"0", "*">>}, ad \in Adds }
=============================================================================
