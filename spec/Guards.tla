------------------------------- MODULE Guards -------------------------------
(***************************************************************************)
(* Unsupported requests fail loudly (C20).                                 *)
(* A request = [backend, call, solver, vec, delay, sparse, defect, form]   *)
(* (form: node-and-edge circuit or PopulationTemplate / Connectivity;     *)
(*  delay "mixed" = a discrete delay processed before a distributed one,  *)
(*  "mixed2" = the other order).                                          *)
(* Layer M: MustRaise(request) / MustWarn(request) as the property states  *)
(*   them (support matrix + malformed models).                             *)
(* Layer P: the guards in the order the code runs them (input wiring,      *)
(*   _validate_backend_args, template application with its checks, the     *)
(*   ring-buffer support check after the compute graph exists, output      *)
(*   resolution, the sparse-Jacobian check, _validate_solver inside        *)
(*   _solve); each guard can move pc to "raised"; falling through all of   *)
(*   them reaches "returned".                                              *)
(***************************************************************************)
EXTENDS Integers, Sequences, FiniteSets, TLC, Json

CONSTANTS Requests, Dev

VARIABLES rq, pc, warned, stage
vars == <<rq, pc, warned, stage>>

Backends == {"default", "torch", "jax", "fortran"}
Supported(b) == CASE b = "default" -> {"euler", "heun", "scipy"}
                  [] b = "torch"   -> {"euler", "scipy"}
                  [] b = "jax"     -> {"euler", "heun", "scipy", "diffrax"}
                  [] b = "fortran" -> {"euler", "heun", "scipy"}
Adaptive(s) == s \notin {"euler", "heun"}
ImmutableArrays(b) == b = "jax"
RingBuffer(r) == r.delay \in {"edge", "mixed", "mixed2"} /\ ~Adaptive(r.solver)        \* discrete-delay ring buffer is emitted
(* names a model variable may not take: PyRates-internal slots, sympy constants / singletons, function names *)
ReservedNames == {"y", "dy", "source_idx", "target_idx", "pi", "I", "E", "S", "Q", "O", "N", "oo", "zoo", "nan", "beta", "gamma", "Beta", "Gamma",
                  "exp", "log", "sin", "cos", "tan", "cot", "sec", "csc", "sinh", "cosh", "tanh", "sqrt", "abs"}
ReservedDefects == {"reserved:" \o n : n \in ReservedNames}
RaiseDefects == ReservedDefects \cup {"reserved_name", "undeclared_var", "undeclared_var_declared_by_sibling_op", "undeclared_var_declared_by_later_sibling_op",
                 "value_missing_var_second_node", "edge_template_two_outputs", "value_missing_op", "value_missing_op_all", "edge_missing_source_node", "edge_missing_source_var",
                 "edge_missing_target_var", "output_missing_node", "output_missing_var", "two_outputs", "cyclic_ops"}
WarnDefects == {"input_missing_var", "input_missing_node", "update_missing_var", "nodevalue_missing_node"}

(* ------------------------------- layer M -------------------------------- *)
MustRaise(r) ==
  \/ r.call = "run" /\ r.solver \notin Supported(r.backend)
  \/ r.backend = "fortran" /\ r.vec
  \/ RingBuffer(r) /\ ImmutableArrays(r.backend)
  \/ r.call = "jac" /\ r.sparse /\ ImmutableArrays(r.backend)
  \/ r.defect \in RaiseDefects /\ (r.defect \in {"output_missing_node", "output_missing_var"} => r.call = "run")
MustWarn(r) == r.defect \in WarnDefects

(* ------------------------------- layer P -------------------------------- *)
Stages == <<"inputs", "backend_args", "apply", "delay_support", "outputs", "sparse", "solve", "done">>
StageGuard(s, r) ==        \* TRUE: this guard raises
  CASE s = "inputs"        -> FALSE
    [] s = "backend_args"  -> r.backend = "fortran" /\ r.vec
    [] s = "apply"         -> r.defect \in (RaiseDefects \ {"output_missing_node", "output_missing_var"})
    [] s = "delay_support" -> RingBuffer(r) /\ ImmutableArrays(r.backend) /\ "DelaySupportFlagLost" \notin Dev
    [] s = "outputs"       -> r.call = "run" /\ r.defect \in {"output_missing_node", "output_missing_var"}
    [] s = "sparse"        -> r.call = "jac" /\ r.sparse /\ ImmutableArrays(r.backend)
    [] s = "solve"         -> r.call = "run" /\ r.solver \notin Supported(r.backend) /\ "SolverNotValidated" \notin Dev
    [] s = "done"          -> FALSE
StageWarns(s, r) == s = "inputs" /\ r.defect \in WarnDefects /\ "MissingTargetSilent" \notin Dev

Init == rq \in Requests /\ pc = "running" /\ warned = FALSE /\ stage = 1
Step == /\ pc = "running"
        /\ IF StageGuard(Stages[stage], rq) THEN pc' = "raised" /\ UNCHANGED <<stage, warned>>
           ELSE IF Stages[stage] = "done" THEN pc' = "returned" /\ UNCHANGED <<stage, warned>>
           ELSE pc' = pc /\ stage' = stage + 1 /\ warned' = (warned \/ StageWarns(Stages[stage], rq))
        /\ UNCHANGED rq
Next == Step
Spec == Init /\ [][Next]_vars

NoUnsupportedReturn == pc = "returned" => ~MustRaise(rq)
NoSilentDrop == pc = "returned" /\ MustWarn(rq) => warned
RaisesOnlyWhenRequired == pc = "raised" => MustRaise(rq)          \* P raises nothing the property does not ask for
Export == pc \in {"returned", "raised"} =>
            PrintT(<<"REQ", ToJson([rq |-> rq, mustRaise |-> MustRaise(rq), mustWarn |-> MustWarn(rq), outcomeP |-> pc])>>)

(* request generators *)
Rq(b, c, s, v, d, sp, df) == [backend |-> b, call |-> c, solver |-> s, vec |-> v, delay |-> d, sparse |-> sp, defect |-> df, form |-> "nodes"]
RqPop(b, c, s, d) == [backend |-> b, call |-> c, solver |-> s, vec |-> TRUE, delay |-> d, sparse |-> FALSE, defect |-> "none", form |-> "pop"]
Matrix(bs) ==
  { Rq(b, "run", s, v, d, FALSE, "none") : b \in bs, s \in {"euler", "heun", "scipy", "diffrax", "rk99"}, v \in BOOLEAN,
                                           d \in {"none", "edge", "past", "gamma", "mixed", "mixed2"} }
  \cup { RqPop(b, c, s, d) : b \in bs \ {"fortran"}, c \in {"run", "func"}, s \in {"euler", "heun", "scipy"}, d \in {"edge", "gamma", "mixed", "mixed2"} }
  \cup { Rq(b, "func", s, v, d, FALSE, "none") : b \in bs, s \in {"euler", "scipy"}, v \in BOOLEAN, d \in {"none", "edge", "past", "gamma", "mixed"} }
  \cup { Rq(b, "jac", s, v, d, sp, "none") : b \in bs, s \in {"euler", "scipy"}, v \in {FALSE}, d \in {"none", "past"}, sp \in BOOLEAN }
Malformed == { Rq("default", c, "euler", v, "none", FALSE, df) : c \in {"run", "func"}, v \in BOOLEAN, df \in RaiseDefects \cup WarnDefects }
=============================================================================
