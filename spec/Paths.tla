-------------------------------- MODULE Paths --------------------------------
(***************************************************************************)
(* Variable paths  circuit/.../node/operator/variable  with 'all'          *)
(* wildcards (C06): which nodes a path denotes, and which column of the    *)
(* DataFrame returned by run() carries which node under which label.       *)
(*                                                                         *)
(* A circuit is a tree of depth h (0..2) whose leaves are nodes; node n    *)
(* of kind "L" has variable lin/x, kind "S" additionally aux/q.  `order`   *)
(* is the declaration order of the nodes (dict insertion order); circuits  *)
(* appear in order of their first node.                                    *)
(*                                                                         *)
(* Layer M: Resolve(pattern, var) = the nodes, in declaration-order        *)
(*   traversal, whose path matches the pattern level by level and that own *)
(*   the variable; Columns(request) = the labels run() must produce, each  *)
(*   with the node whose trajectory it must carry.                         *)
(* Layer P: the recursion of CircuitTemplate.get_nodes, the variable       *)
(*   filter, and the label construction of get_variable_positions/run.     *)
(***************************************************************************)
EXTENDS Integers, Sequences, FiniteSets, TLC, Json

CONSTANTS Cases,  \* set of [kinds, order, hier, vec, req] ; req = [form, pats : Seq(pattern), var]
          Dev

VARIABLES cs, pc, cols
vars == <<cs, pc, cols>>

Kinds == cs.kinds
NN == Len(Kinds)
H == cs.hier
(* path of node n: same naming as the harness *)
Str(n) == CASE n = 0 -> "0" [] n = 1 -> "1" [] n = 2 -> "2" [] n = 3 -> "3" [] n = 4 -> "4" [] n = 5 -> "5" [] n = 6 -> "6"
PathOf(n) == IF H = 0 THEN <<"n" \o Str(n)>>
             ELSE IF H = 1 THEN <<"c" \o Str(n % 2), "n" \o Str(n)>>
             ELSE <<"top" \o Str(n % 2), "c0", "n" \o Str(n)>>
OpVar(var) == IF var = "x" THEN "lin/x" ELSE "aux/q"
Owns(n, var) == var = "x" \/ Kinds[n] = "S"
Join(seq, sep) == LET RECURSIVE F(_)
                      F(i) == IF i > Len(seq) THEN "" ELSE (IF i = 1 THEN "" ELSE sep) \o seq[i] \o F(i + 1)
                  IN F(1)

(* declaration-order traversal: circuits in order of first appearance, nodes in `order` within each *)
Ord == cs.order
PosInOrd(n) == CHOOSE i \in 1..Len(Ord) : Ord[i] = n
TopKey(n) == IF H = 0 THEN 0 ELSE n % 2
FirstPosOfTop(k) == LET ns == {n \in 1..NN : TopKey(n) = k} IN
                    CHOOSE p \in {PosInOrd(n) : n \in ns} : \A n \in ns : p <= PosInOrd(n)
Before(a, b) == IF TopKey(a) # TopKey(b) THEN FirstPosOfTop(TopKey(a)) < FirstPosOfTop(TopKey(b))
                ELSE PosInOrd(a) < PosInOrd(b)
SortNodes(S) == LET RECURSIVE F(_)
                    F(T) == IF T = {} THEN <<>>
                            ELSE LET m == CHOOSE m \in T : \A o \in T : o = m \/ Before(m, o) IN <<m>> \o F(T \ {m})
                IN F(S)

-----------------------------------------------------------------------------
(* Layer M *)
Matches(n, pat) == IF pat = <<"all">> THEN TRUE
                   ELSE Len(pat) = H + 1 /\ \A l \in 1..(H + 1) : pat[l] = "all" \/ pat[l] = PathOf(n)[l]
ResolveM(pat, var) == SortNodes({n \in 1..NN : Matches(n, pat) /\ Owns(n, var)})

Col(label, n) == [label |-> label, node |-> n]
ColumnsOfDictKey(key, pat, var, resolve(_, _)) ==
  LET ns == resolve(pat, var) IN
  IF Len(ns) = 1 THEN <<Col(<<key>>, ns[1])>>
  ELSE [i \in 1..Len(ns) |-> Col(<<key>> \o PathOf(ns[i]) \o <<OpVar(var)>>, ns[i])]
ColumnsOfListEntry(pat, var, resolve(_, _)) ==
  LET ns == resolve(pat, var) IN
  [i \in 1..Len(ns) |-> Col(<<Join(PathOf(ns[i]) \o <<OpVar(var)>>, "/")>>, ns[i])]
ColumnsWith(resolve(_, _)) ==
  LET r == cs.req
      RECURSIVE F(_)
      F(i) == IF i > Len(r.pats) THEN <<>>
              ELSE (IF r.form = "dict" THEN ColumnsOfDictKey("k" \o Str(i), r.pats[i], r.var, resolve)
                    ELSE ColumnsOfListEntry(r.pats[i], r.var, resolve)) \o F(i + 1)
  IN F(1)
ColumnsM == IF cs.req.form = "input" THEN [i \in 1..Len(ResolveM(cs.req.pats[1], "x")) |-> Col(<<"col", Str(i)>>, ResolveM(cs.req.pats[1], "x")[i])]
            ELSE ColumnsWith(ResolveM)

-----------------------------------------------------------------------------
(* Layer P: CircuitTemplate.get_nodes *)
(* the tree level by level: children of a prefix, in declaration order *)
ChildrenNames(prefix) ==    \* names at level Len(prefix)+1 below prefix, ordered
  LET below == {n \in 1..NN : \A l \in 1..Len(prefix) : PathOf(n)[l] = prefix[l]}
      sorted == SortNodes(below)
      names == [i \in 1..Len(sorted) |-> PathOf(sorted[i])[Len(prefix) + 1]]
      RECURSIVE Uniq(_, _)
      Uniq(i, acc) == IF i > Len(names) THEN acc
                      ELSE Uniq(i + 1, IF \E j \in 1..Len(acc) : acc[j] = names[i] THEN acc ELSE Append(acc, names[i]))
  IN Uniq(1, <<>>)
NodeAt(path) == CHOOSE n \in 1..NN : PathOf(n) = path
IsLeafLevel(prefix) == Len(prefix) = H
RECURSIVE GetNodesP(_, _)
GetNodesP(prefix, ident) ==   \* returns sequence of node ids
  LET names == ChildrenNames(prefix) IN
  IF Len(ident) = 1
  THEN IF ident[1] = "all"
       THEN IF IsLeafLevel(prefix) THEN [i \in 1..Len(names) |-> NodeAt(Append(prefix, names[i]))]
            ELSE LET RECURSIVE Cat(_)
                     Cat(i) == IF i > Len(names) THEN <<>> ELSE GetNodesP(Append(prefix, names[i]), <<"all">>) \o Cat(i + 1)
                 IN Cat(1)
       ELSE IF (\E i \in 1..Len(names) : names[i] = ident[1]) /\ IsLeafLevel(prefix)
            THEN <<NodeAt(Append(prefix, ident[1]))>> ELSE <<>>
  ELSE LET lv == ident[1]  rest == SubSeq(ident, 2, Len(ident))
           sel == IF lv = "all" THEN names ELSE (IF \E i \in 1..Len(names) : names[i] = lv THEN <<lv>> ELSE <<>>)
           RECURSIVE Cat2(_)
           Cat2(i) == IF i > Len(sel) THEN <<>> ELSE GetNodesP(Append(prefix, sel[i]), rest) \o Cat2(i + 1)
       IN Cat2(1)
FilterVar(ns, var) == SelectSeq(ns, LAMBDA n : Owns(n, var))
(* vectorisation relabels a node path to the label of the merged node (first node of its kind in apply order);
   list-form outputs are relabelled *before* resolution under the deviation *)
FirstOfKind(n) == LET same == {m \in 1..NN : Kinds[m] = Kinds[n]} IN SortNodes(same)[1]
Relabel(pat) == IF cs.vec /\ "ListOutputRelabelFirst" \in Dev /\ cs.req.form = "list" /\ pat # <<"all">> /\ pat[Len(pat)] # "all"
                   /\ \E n \in 1..NN : PathOf(n) = pat
                THEN PathOf(FirstOfKind(NodeAt(pat))) ELSE pat
ResolveP(pat, var) == FilterVar(GetNodesP(<<>>, Relabel(pat)), var)

(* (N,n) extrinsic input addressed by a (wildcard) path (C08): req.form = "input", one pattern.  M: column i drives the
   i-th resolved node.  P (_add_input, _group_edges): one edge per resolved node carrying source_idx = its column; the
   edges are grouped per vectorised target node (= kind); each group keeps a source-index list and a target-index list
   (position of the node inside its vectorised node) that are extended edge by edge and later paired positionally. *)
IsInput == cs.req.form = "input"
GroupMembers(k) == SortNodes({m \in 1..NN : Kinds[m] = k})
PosIn(seq, x) == CHOOSE j \in 1..Len(seq) : seq[j] = x
RoutingM == LET ns == ResolveM(cs.req.pats[1], "x") IN [i \in 1..Len(ns) |-> Col(<<"col", Str(i)>>, ns[i])]
RoutingP ==
  LET ns == ResolveP(cs.req.pats[1], "x")
      grpIdx(k) == SelectSeq([i \in 1..Len(ns) |-> i], LAMBDA i : Kinds[ns[i]] = k)     \* edges of the group, in edge order
      srcList(k) == [j \in 1..Len(grpIdx(k)) |-> IF "SourceIdxPositional" \in Dev THEN j ELSE grpIdx(k)[j]]
      tgtList(k) == [j \in 1..Len(grpIdx(k)) |-> PosIn(GroupMembers(k), ns[grpIdx(k)[j]])]
      colOf(i) == LET k == Kinds[ns[i]]
                      j == CHOOSE j \in 1..Len(grpIdx(k)) : tgtList(k)[j] = PosIn(GroupMembers(k), ns[i])
                  IN srcList(k)[j]
  IN [i \in 1..Len(ns) |-> Col(<<"col", Str(colOf(i))>>, ns[i])]
ColumnsP == IF IsInput THEN RoutingP ELSE ColumnsWith(ResolveP)

-----------------------------------------------------------------------------
Init == cs \in Cases /\ pc = "start" /\ cols = <<>>
Run == /\ pc = "start" /\ pc' = "done" /\ cols' = ColumnsP /\ UNCHANGED cs
Next == Run
Spec == Init /\ [][Next]_vars

ColumnCarriesItsLabel == pc = "done" => cols = ColumnsM
ResolveAgrees == \A i \in 1..Len(cs.req.pats) : ResolveP(cs.req.pats[i], cs.req.var) = ResolveM(cs.req.pats[i], cs.req.var)
NonTrivial == \E i \in 1..Len(cs.req.pats) : Len(ResolveM(cs.req.pats[i], cs.req.var)) >= 2
Export == pc = "done" => PrintT(<<"CASE", ToJson([cs |-> cs, columns |-> ColumnsM, paths |-> [n \in 1..NN |-> PathOf(n)],
                                                   nontrivial |-> NonTrivial])>>)
=============================================================================
