----------------------------- MODULE WiringCases -----------------------------
(* Program generators for Wiring.tla: all node-kind sequences and ordered edge lists within bounds. *)
EXTENDS Integers, Sequences, FiniteSets

Kinds == {"L", "P", "Q", "S"}
KVars(k) == CASE k = "L" -> {"x"} [] k = "P" -> {"z", "x"} [] k = "Q" -> {"x", "z"} [] k = "S" -> {"x", "q"}
MkNode(k, n) == [kind |-> k, c |-> 2 * n, a |-> 0 - n, du |-> 5 + n, dv |-> 7 + n]
WeightAt(q) == <<2, 3, -5, 7>>[q]
KindSeqs(ks, nmin, nmax) == UNION { [1..l -> ks] : l \in nmin..nmax }
EdgeUniverse(kseq, tms) ==
  { [s |-> s, sv |-> sv, t |-> t, tv |-> tv, tm |-> tm] :
      s \in 1..Len(kseq), sv \in UNION {KVars(kseq[n]) : n \in 1..Len(kseq)}, t \in 1..Len(kseq), tv \in {"u", "v"}, tm \in tms }
ValidEdge(kseq, e) == e.sv \in KVars(kseq[e.s])
EdgeLists(kseq, emax, tms) ==
  UNION { [1..l -> {e \in EdgeUniverse(kseq, tms) : ValidEdge(kseq, e)}] : l \in 0..emax }
MkProg(kseq, el) ==
  [nodes |-> [n \in 1..Len(kseq) |-> MkNode(kseq[n], n)],
   edges |-> [q \in 1..Len(el) |-> [s |-> el[q].s, sv |-> el[q].sv, t |-> el[q].t, tv |-> el[q].tv,
                                    w |-> WeightAt(q), tm |-> el[q].tm]]]
ProgSet(ks, nmin, nmax, emax, tms) ==
  { MkProg(kseq, el) : kseq \in KindSeqs(ks, nmin, nmax), el \in UNION { EdgeLists(kq, emax, tms) : kq \in KindSeqs(ks, nmin, nmax) } }
(* well-formed: every edge refers to existing nodes/variables of *this* kind sequence *)
WellFormed(p) == \A q \in 1..Len(p.edges) :
                   /\ p.edges[q].s \in 1..Len(p.nodes) /\ p.edges[q].t \in 1..Len(p.nodes)
                   /\ p.edges[q].sv \in KVars(p.nodes[p.edges[q].s].kind)
Programs(ks, nmin, nmax, emax, tms) ==
  UNION { { MkProg(kseq, el) : el \in EdgeLists(kseq, emax, tms) } : kseq \in KindSeqs(ks, nmin, nmax) }
(* ---- C04: larger homogeneous / mixed populations with structured connection patterns ---- *)
Shift(n, k) == [i \in 1..n |-> ((i - 1 + k) % n) + 1]
ReverseInterior(n) == [i \in 1..n |-> IF i = 1 \/ i = n THEN i ELSE n + 1 - i]      \* fixed end points, permuted interior
SwapPairs(n) == [i \in 1..n |-> IF i % 2 = 1 THEN (IF i + 1 <= n THEN i + 1 ELSE i) ELSE i - 1]
Ident(n) == [i \in 1..n |-> i]
Perms(n) == {Ident(n), Shift(n, 1), Shift(n, 3), ReverseInterior(n), SwapPairs(n)}
WeightOf(i) == ((i * 7) % 11) + 2
(* one-to-one coupling i -> pi(i) into input tv; kinds alternate according to ks *)
PermProg(ks, pi, tv) ==
  [nodes |-> [n \in 1..Len(ks) |-> MkNode(ks[n], n)],
   edges |-> [i \in 1..Len(pi) |-> [s |-> i, sv |-> "x", t |-> pi[i], tv |-> tv, w |-> WeightOf(i), tm |-> FALSE]]]
KindPattern(n, pat) == [i \in 1..n |-> pat[((i - 1) % Len(pat)) + 1]]
(* block patterns between the first a nodes (sources) and the remaining nodes (targets): dense / sparse masks *)
BlockProg(ks, a, mask, tv) ==
  LET n == Len(ks)
      pairs == { <<s, t>> : s \in 1..a, t \in (a + 1)..n }
      chosen == { p \in pairs : mask[((p[1] * 3 + p[2] * 5) % Len(mask)) + 1] = 1 }
      RECURSIVE ToSeq(_)
      ToSeq(S) == IF S = {} THEN <<>> ELSE LET x == CHOOSE x \in S : \A y \in S : (x[1] * 100 + x[2]) <= (y[1] * 100 + y[2]) IN <<x>> \o ToSeq(S \ {x})
      sq == ToSeq(chosen)
  IN [nodes |-> [i \in 1..n |-> MkNode(ks[i], i)],
      edges |-> [q \in 1..Len(sq) |-> [s |-> sq[q][1], sv |-> "x", t |-> sq[q][2], tv |-> tv, w |-> WeightOf(q), tm |-> FALSE]]]
(* every node is a target exactly once; its source is sigma(target): sorted source lists with a duplicate and a gap *)
SrcMapProg(ks, sigma, tv) ==
  [nodes |-> [n \in 1..Len(ks) |-> MkNode(ks[n], n)],
   edges |-> [t \in 1..Len(sigma) |-> [s |-> sigma[t], sv |-> "x", t |-> t, tv |-> tv, w |-> WeightOf(t), tm |-> FALSE]]]
DupGap(n, at) == [t \in 1..n |-> IF t = at + 1 THEN at ELSE t]          \* source at feeds targets at and at+1, source at+1 nothing
SrcMaps(n) == {DupGap(n, 1), DupGap(n, n \div 2), [t \in 1..n |-> IF t = 2 THEN 3 ELSE IF t = 3 THEN 2 ELSE IF t = 5 THEN 4 ELSE t]}
(* edges whose template reads a second variable given as a path (w * (source - x_ref)): one or two such edges over n nodes *)
RefEdge(s, t, r, q) == [s |-> s, sv |-> "x", t |-> t, tv |-> "u", w |-> WeightOf(q), tm |-> FALSE, ref |-> r]
RefProgs(ns, pats) ==
  UNION { { [nodes |-> [i \in 1..n |-> MkNode(KindPattern(n, pat)[i], i)], edges |-> es] :
              pat \in pats,
              es \in { <<RefEdge(e[1], e[2], e[3], 1)>> : e \in (1..n) \X (1..n) \X (1..n) }
                     \cup { <<RefEdge(e[1], e[2], e[3], 1), RefEdge(f[1], f[2], f[3], 2)>> : e \in (1..n) \X (1..n) \X (1..n), f \in (1..n) \X (1..n) \X (1..n) } }
          : n \in ns }
C04Progs(ns) ==
  UNION { { PermProg(KindPattern(n, pat), pi, tv) : pi \in Perms(n), pat \in {<<"L">>, <<"L", "S">>}, tv \in {"u", "v"} } : n \in ns }
  \cup UNION { { SrcMapProg(KindPattern(n, <<"L">>), sg, tv) : sg \in SrcMaps(n), tv \in {"u", "v"} } : n \in {m \in ns : m >= 5} }
  \cup UNION { { BlockProg(KindPattern(n, pat), a, mask, "u") : a \in {1, 2, 3}, pat \in {<<"L">>, <<"S", "L">>},
                                                           mask \in {<<1>>, <<1, 0>>, <<1, 0, 0, 1, 0>>} } : n \in {4, 6} }
(* ---- C16: PopulationTemplate / Connectivity circuits and their expansion into nodes and scalar edges ---- *)
(* pops : Seq([kind, n]);  conns : Seq([sp, tp, tv, w (matrix: Seq(Seq(Int)) rows = targets | <<>> for scalar), sw (scalar
   weight), cpl ("none" | "pre" | "diff")]).  Unit u of population p is node First(p) + u - 1 of the expansion. *)
First(pops, p) == 1 + (LET RECURSIVE F(_)
                           F(q) == IF q = 0 THEN 0 ELSE pops[q].n + F(q - 1)
                       IN F(p - 1))
PopNodes(pops) == LET RECURSIVE F(_)
                      F(p) == IF p > Len(pops) THEN <<>>
                              ELSE [u \in 1..pops[p].n |-> [MkNode(pops[p].kind, First(pops, p) + u - 1) EXCEPT !.du = 0, !.dv = 0]] \o F(p + 1)
                  IN F(1)
ConnEdges(pops, c) ==
  LET ns == pops[c.sp].n  nt == pops[c.tp].n
      RECURSIVE Row(_, _)
      Row(i, j) == IF j > ns THEN <<>>
                   ELSE (LET w == IF c.w = <<>> THEN c.sw ELSE c.w[i][j] IN
                         IF w = 0 THEN <<>>
                         ELSE <<[s |-> First(pops, c.sp) + j - 1, sv |-> (IF "sv" \in DOMAIN c THEN c.sv ELSE "x"), t |-> First(pops, c.tp) + i - 1, tv |-> c.tv,
                                 w |-> w, tm |-> c.cpl \in {"pre", "pre6"}, df |-> c.cpl = "diff",
                                 g |-> CASE c.cpl = "pre" -> 3 [] c.cpl = "pre2" -> 6 [] c.cpl = "pre6" -> 6 [] OTHER -> 1]>>) \o Row(i, j + 1)
      RECURSIVE Rows(_)
      Rows(i) == IF i > nt THEN <<>> ELSE Row(i, 1) \o Rows(i + 1)
  IN Rows(1)
Expand(pops, conns) ==
  [nodes |-> PopNodes(pops),
   edges |-> (LET RECURSIVE F(_)
                  F(q) == IF q > Len(conns) THEN <<>> ELSE ConnEdges(pops, conns[q]) \o F(q + 1)
              IN F(1)),
   pop |-> [pops |-> pops, conns |-> conns]]
Mat(nt, ns, pat) == [i \in 1..nt |-> [j \in 1..ns |-> pat[((i * 2 + j * 3) % Len(pat)) + 1]]]
Conn(sp, tp, tv, w, sw, cpl) == [sp |-> sp, tp |-> tp, tv |-> tv, w |-> w, sw |-> sw, cpl |-> cpl]
WPats == {<<2, 0, -3>>, <<0, 2>>, <<-3, 2, 2, 0, 0>>, <<2>>}
C16Progs(sizes) ==
  \* one population, recurrent connection
  { Expand(<<[kind |-> k, n |-> n]>>, <<Conn(1, 1, tv, Mat(n, n, pat), 0, cpl)>>) :
        n \in sizes, k \in {"L", "S"}, tv \in {"u", "v"}, pat \in WPats, cpl \in {"none", "pre", "pre2", "diff"} }
  \cup \* two populations, non-square matrix forward and scalar (global) weight back
  { Expand(<<[kind |-> "L", n |-> ns], [kind |-> "S", n |-> nt]>>,
           <<Conn(1, 2, "u", Mat(nt, ns, pat), 0, cpl), Conn(2, 1, "v", <<>>, sw, "none")>>) :
        ns \in sizes, nt \in sizes, pat \in WPats, cpl \in {"none", "diff"}, sw \in {1, -3} }
  \cup \* the source variable is not the declared output of its operator (z of prod, whose output is u)
  { Expand(<<[kind |-> "P", n |-> ns], [kind |-> "L", n |-> nt]>>,
           <<[sp |-> 1, tp |-> 2, tv |-> tv, w |-> Mat(nt, ns, pat), sw |-> 0, cpl |-> cpl, sv |-> "z"]>>) :
        ns \in sizes, nt \in sizes, tv \in {"u", "v"}, pat \in {<<2, 0, -3>>, <<2>>}, cpl \in {"none", "pre"} }
  \cup \* two scalar (global) weights converging on one target variable
  { Expand(<<[kind |-> "L", n |-> ns], [kind |-> "L", n |-> 2], [kind |-> "S", n |-> 3]>>,
           <<Conn(1, 3, "u", <<>>, 2, "none"), Conn(2, 3, "u", <<>>, 0 - 3, "none")>>) : ns \in sizes }
  \cup \* two coupling edges of one template (same equations) that differ in a constant only: gains 3 and 6
  { Expand(<<[kind |-> "L", n |-> ns], [kind |-> "S", n |-> nt]>>,
           <<Conn(1, 2, "u", Mat(nt, ns, pat), 0, c1), Conn(2, 1, "v", Mat(ns, nt, <<0, 2>>), 0, c2)>>) :
        ns \in sizes, nt \in sizes, pat \in {<<2, 0, -3>>, <<2>>}, c1 \in {"pre", "pre6"}, c2 \in {"pre", "pre6"} }
  \cup \* two connections converging on one target variable from different populations
  { Expand(<<[kind |-> "L", n |-> ns], [kind |-> "L", n |-> 2], [kind |-> "S", n |-> 3]>>,
           <<Conn(1, 3, "u", Mat(3, ns, <<2, 0, -3>>), 0, "none"), Conn(2, 3, "u", Mat(3, 2, <<0, 2>>), 0, "none")>>) : ns \in sizes }
=============================================================================
