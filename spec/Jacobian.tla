------------------------------ MODULE Jacobian ------------------------------
(***************************************************************************)
(* get_jacobian_func returns the derivative of get_run_func (C12).         *)
(* A model = the right-hand sides of three scalar state variables x, z, w  *)
(* (this is their order in the state vector) as expression trees over the  *)
(* state variables, the parameters p and g, an algebraic intermediate      *)
(* m = z*w, and delayed leaves past(v, tau_d).                             *)
(* Layer M: J0[i][j] = D(f_i, y_j) after expanding m; for every distinct   *)
(*   delay d: Jd[i][j] = D(f_i, past(y_j, tau_d)), j = position of y_j in  *)
(*   the state vector.  The trees are exported; the harness evaluates them *)
(*   with NumPy and compares with the matrices the generated function      *)
(*   returns and with central differences of the generated vector field.   *)
(***************************************************************************)
EXTENDS Expr, Json

CONSTANTS Models      \* set of [fx, fz, fw] tree triples

VARIABLES mdl, pc
vars == <<mdl, pc>>

SVars == <<"x", "z", "w">>
AlgDef == Bin("mul", V("z"), V("w"))                    \* m = z*w
AlgDef2 == Bin("add", Bin("mul", V("m"), V("m")), Call("sin", V("z")))      \* q = m*m + sin(z): a second intermediate that uses the first
F(i) == Subst(Subst(CASE i = 1 -> mdl.fx [] i = 2 -> mdl.fz [] i = 3 -> mdl.fw, "q", AlgDef2), "m", AlgDef)
RECURSIVE Delays(_)
Delays(t) == CASE t.k = "past" -> {t.c}
               [] t.k \in {"var", "lit"} -> {}
               [] t.k \in {"neg", "call"} -> Delays(t.a[1])
               [] OTHER -> Delays(t.a[1]) \cup Delays(t.b[1])
AllDelays == Delays(F(1)) \cup Delays(F(2)) \cup Delays(F(3))
J0 == [i \in 1..3 |-> [j \in 1..3 |-> D(F(i), V(SVars[j]))]]
JD(d) == [i \in 1..3 |-> [j \in 1..3 |-> D(F(i), Past(SVars[j], d))]]

St == [pow |-> "^", sp |-> TRUE, par |-> FALSE]
Init == mdl \in Models /\ pc = "model"
Diff == pc = "model" /\ pc' = "done" /\ UNCHANGED mdl
Next == Diff
Spec == Init /\ [][Next]_vars

(* design invariants *)
Env0 == [n \in {"x", "z", "w", "p", "g", "m", "q"} |-> CASE n = "x" -> Q(2) [] n = "z" -> Q(3) [] n = "w" -> <<1, 2>> [] n = "p" -> Q(3) [] n = "g" -> Q(2) [] n = "m" -> Q(0) [] n = "q" -> Q(0)]
DerivativeExactOnPolynomials == \A i \in 1..3, j \in 1..3 : DExactOn(F(i), SVars[j], Env0)
HistoryColumnsAreStatePositions ==         \* a delayed leaf of variable y_j contributes to column j and to no other
  \A d \in AllDelays : \A i \in 1..3, j \in 1..3 :
     (JD(d)[i][j] # L(0)) => \E t \in {F(i)} : d \in Delays(t)
NoDelayNoHistory == AllDelays = {} => TRUE
SetToSeq(S) == LET RECURSIVE G(_)
                   G(T) == IF T = {} THEN <<>> ELSE LET x == CHOOSE x \in T : \A y \in T : x <= y IN <<x>> \o G(T \ {x})
               IN G(S)
Export == pc = "done" =>
   PrintT(<<"MODEL", ToJson([eqs |-> <<Render(mdl.fx, St), Render(mdl.fz, St), Render(mdl.fw, St)>>,
                             f |-> <<F(1), F(2), F(3)>>, j0 |-> J0,
                             delays |-> SetToSeq(AllDelays), jd |-> [q \in 1..Len(SetToSeq(AllDelays)) |-> JD(SetToSeq(AllDelays)[q])]])>>)

(* model generators *)
Terms == << V("x"), V("z"), Bin("mul", V("x"), V("z")), Bin("pow", V("x"), L(2)), Bin("mul", V("p"), V("w")),
            Call("sin", V("x")), Call("sigmoid", V("z")), Bin("mul", V("g"), Past("z", 1)),
            Bin("mul", V("x"), Bin("mul", V("g"), Past("z", 1))), Bin("mul", V("p"), Past("w", 2)),
            Call("tanh", Bin("mul", V("x"), V("z"))), Bin("mul", V("g"), Past("z", 2)), Bin("mul", V("m"), V("x")),
            Call("exp", Neg(V("x"))), Bin("div", V("z"), Bin("add", L(1), Bin("pow", V("x"), L(2)))),
            Call("cos", Bin("add", V("w"), V("z"))), Bin("mul", V("g"), Past("x", 1)),
            Bin("mul", V("g"), Past("z", 3)),        \* tau3 differs from tau2 only in the 4th significant digit
            Bin("add", V("m"), V("q")) >>            \* the intermediate m used directly and through q
Rhs(decay, v, a, b) == Bin("add", Bin("add", Bin("mul", L(decay), V(v)), Terms[a]), Terms[b])
ModelSet(as, bs, cs, ds) ==
  { [fx |-> Rhs(-1, "x", a, b), fz |-> Rhs(-2, "z", c, 1), fw |-> Rhs(-3, "w", d, 2)] : a \in as, b \in bs, c \in cs, d \in ds }
=============================================================================
