----------------------------- MODULE DDEHistory -----------------------------
(***************************************************************************)
(* The history buffer used by the DDE solvers                              *)
(* (pyrates/backend/base/base_backend.py, class DDEHistory).               *)
(*                                                                         *)
(* Layer M (meaning): the ghost record recT/recY of exactly what the       *)
(* caller handed to update(); QueryM is the piecewise-linear interpolant   *)
(* of that record with constant extrapolation.                             *)
(* Layer P (implementation): the python list _t (tl), the pre-allocated    *)
(* row buffer _y (buf, garbage beyond n), the counter _n (n), geometric    *)
(* growth, bisect_right lookup.  The caller's array object is modelled     *)
(* too (caller / alias) so that "rows are copies" is a checkable           *)
(* statement: a row that merely references the caller's array reads the    *)
(* caller's *current* content.                                             *)
(* Named deviations (constant Dev) are the ways the implementation could   *)
(* plausibly be wrong; with Dev = {} every invariant must hold, with any   *)
(* single deviation TLC must find a counterexample (non-vacuity).          *)
(* Times are integers (the harness scales them by a dyadic factor), values *)
(* are integer vectors, query results are exact rationals <<num, den>>.    *)
(***************************************************************************)
EXTENDS Integers, Sequences, FiniteSets, TLC, Json

CONSTANTS Dev,       \* subset of AllDev
          InitCap,   \* DDEHistory._INITIAL_CAPACITY
          MaxSteps,  \* 0: growable (max_steps=None); k > 0: bounded at k rows
          K,         \* number of state components (enumeration only)
          Vals,      \* component values offered by the enumeration
          Gaps,      \* time increments offered by the enumeration
          MaxLen,    \* bound on the number of records (enumeration only)
          T0         \* initial time

AllDev == {"StoreByReference", "GrowDropsLast", "BoundedOverwrites", "NoClampRight", "LookupOffByOne"}

VARIABLES n,       \* P: _n
          tl,      \* P: _t
          buf,     \* P: _y, a sequence of rows of length capacity
          caller,  \* the array object the caller passes to update (its current content)
          alias,   \* P: rows of buf that are references to the caller's array (only under a deviation)
          recT,    \* M: times given so far (initial record first)
          recY,    \* M: values given so far
          status,  \* result of the last call: "init" | "ok" | "refused" | "mutated"
          tr       \* history of calls (exported; hidden from the fingerprint by VIEW)

vars == <<n, tl, buf, caller, alias, recT, recY, status, tr>>
View == <<n, tl, buf, caller, alias, recT, recY, status>>

GarbageV(y) == [c \in DOMAIN y |-> 77777]       \* np.empty
PoisonV(y)  == [c \in DOMAIN y |-> 55555]       \* what the caller overwrites its array with
Vecs == [1..K -> Vals]
Max(a, b) == IF a > b THEN a ELSE b
Cap0 == IF MaxSteps = 0 THEN InitCap ELSE Max(MaxSteps, 1)
Growable == MaxSteps = 0

-----------------------------------------------------------------------------
(* rationals *)
EqQ(p, q) == p[1] * q[2] = q[1] * p[2]
Q1(a) == [c \in DOMAIN a |-> <<a[c], 1>>]
Lin(a, b, dt, gap) == [c \in DOMAIN a |-> <<a[c] * gap + dt * (b[c] - a[c]), gap>>]
EqQV(p, q) == DOMAIN p = DOMAIN q /\ \A c \in DOMAIN p : EqQ(p[c], q[c])

-----------------------------------------------------------------------------
(* Layer M *)
QueryM(t) ==
  IF t <= recT[1] THEN Q1(recY[1])
  ELSE IF t >= recT[Len(recT)] THEN Q1(recY[Len(recY)])
  ELSE LET j == CHOOSE j \in 1..(Len(recT) - 1) : recT[j] <= t /\ t < recT[j + 1]
       IN Lin(recY[j], recY[j + 1], t - recT[j], recT[j + 1] - recT[j])

(* Layer P *)
RowP(i) == IF i \in alias THEN caller ELSE buf[i]
Bisect(t) == IF "LookupOffByOne" \in Dev THEN Max(Cardinality({j \in 1..Len(tl) : tl[j] <= t}) - 1, 1)
             ELSE Cardinality({j \in 1..Len(tl) : tl[j] <= t})          \* bisect_right(_t, t) - 1, 1-based
QueryP(t) ==
  IF t <= tl[1] THEN Q1(RowP(1))
  ELSE IF t >= tl[Len(tl)] /\ ("NoClampRight" \notin Dev \/ Len(tl) = 1) THEN Q1(RowP(n))
  ELSE LET i == IF Bisect(t) >= Len(tl) THEN Len(tl) - 1 ELSE Bisect(t)
       IN Lin(RowP(i), RowP(i + 1), t - tl[i], tl[i + 1] - tl[i])

Grow(b) == LET keep == IF "GrowDropsLast" \in Dev THEN n - 1 ELSE n
           IN [i \in 1..(2 * Len(b)) |-> IF i <= keep THEN b[i] ELSE GarbageV(b[1])]

-----------------------------------------------------------------------------
(* Actions.  One action per public call. *)
InitWith(t0, y0) ==
  /\ n = 1 /\ tl = <<t0>>
  /\ buf = [i \in 1..Cap0 |-> IF i = 1 THEN y0 ELSE GarbageV(y0)]
  /\ caller = y0 /\ alias = {}
  /\ recT = <<t0>> /\ recY = <<y0>>
  /\ status = "init"
  /\ tr = <<>>

UpdateTo(t, v) ==
  LET full == n >= Len(buf) IN
  /\ t > recT[Len(recT)]
  /\ caller' = v
  /\ tr' = Append(tr, [a |-> "update", t |-> t, y |-> v])
  /\ IF full /\ ~Growable /\ "BoundedOverwrites" \notin Dev
     THEN /\ status' = "refused"                                      \* raise IndexError, nothing stored
          /\ UNCHANGED <<n, tl, buf, alias, recT, recY>>
     ELSE LET b1  == IF full /\ Growable THEN Grow(buf) ELSE buf
              pos == IF full /\ ~Growable THEN n ELSE n + 1           \* deviation: overwrite the last row
          IN /\ status' = "ok"
             /\ tl' = IF pos = n THEN [tl EXCEPT ![n] = t] ELSE Append(tl, t)
             /\ buf' = [b1 EXCEPT ![pos] = v]
             /\ alias' = IF "StoreByReference" \in Dev THEN alias \cup {pos} ELSE alias \ {pos}
             /\ n' = pos
             /\ recT' = Append(recT, t) /\ recY' = Append(recY, v)

MutateCaller ==                                 \* the caller overwrites its own array after update returned
  /\ status = "ok" \/ status = "refused"
  /\ caller' = PoisonV(caller)
  /\ status' = "mutated"
  /\ tr' = Append(tr, [a |-> "mutate", t |-> 0, y |-> PoisonV(caller)])
  /\ UNCHANGED <<n, tl, buf, alias, recT, recY>>

Init == \E y0 \in Vecs : InitWith(T0, y0)
Next == \/ \E g \in Gaps, v \in Vecs : UpdateTo(recT[Len(recT)] + g, v)
        \/ MutateCaller
Bound == Len(recT) <= MaxLen /\ Len(tr) <= MaxLen + 2
Spec == Init /\ [][Next]_vars

-----------------------------------------------------------------------------
(* Properties (C19) *)
QRange == (recT[1] - 1)..(recT[Len(recT)] + 1)

QueryCorrect  == \A t \in QRange : EqQV(QueryP(t), QueryM(t))
ClampLeft     == \A t \in QRange : t <= recT[1] => EqQV(QueryP(t), Q1(recY[1]))
ClampRight    == \A t \in QRange : t >= recT[Len(recT)] => EqQV(QueryP(t), Q1(recY[Len(recY)]))
ExactAtKnots  == \A j \in 1..Len(recT) : EqQV(QueryP(recT[j]), Q1(recY[j]))
LinearBetween == \A j \in 1..(Len(recT) - 1) : \A t \in recT[j]..recT[j + 1] :
                   EqQV(QueryP(t), Lin(recY[j], recY[j + 1], t - recT[j], recT[j + 1] - recT[j]))
RowsAreCopies == \A i \in 1..n : RowP(i) = recY[i]                \* also: rows survive growth
CountsAgree   == n = Len(recT) /\ Len(tl) = n /\ n <= Len(buf)
BoundedRefuses == ~Growable => /\ Len(recT) <= Cap0
                               /\ (status = "refused" => Len(recT) = Cap0)
RefusalKeepsState == [][status' = "refused" => (recT' = recT /\ recY' = recY /\ n' = n /\ tl' = tl)]_vars
GrowthOnlyWhenGrowable == [][Len(buf') # Len(buf) => (Growable /\ Len(buf') = 2 * Len(buf))]_vars

-----------------------------------------------------------------------------
(* Export: one line per distinct abstract state, with the shortest call history that reaches it and
   the expected (layer M) answer to every query in range. *)
QSeq == LET lo == recT[1] - 1  hi == recT[Len(recT)] + 1
        IN [i \in 1..(hi - lo + 1) |-> [t |-> lo + i - 1, r |-> QueryM(lo + i - 1)]]
Export == PrintT(<<"BEH", ToJson([t0 |-> recT[1], y0 |-> recY[1], maxsteps |-> MaxSteps, initcap |-> InitCap,
                                   calls |-> tr, status |-> status, nrec |-> Len(recT), queries |-> QSeq])>>)
=============================================================================
