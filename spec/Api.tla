-------------------------------- MODULE Api --------------------------------
(***************************************************************************)
(* PyRates as a state machine whose steps are public API calls (C07, C13,  *)
(* C14).  State = what a user can influence: the template heap (operator   *)
(* templates, node templates with their *shared, mutable* variation        *)
(* dictionaries, circuits with node entries and edge attribute dicts) and  *)
(* the module-level caches (OperatorTemplate.cache keyed by operator name, *)
(* node_cache keyed by operator-structure hash).                           *)
(*                                                                         *)
(* Layer M: Meaning(c) - a function of the template alone: per node its    *)
(*   equation variant, rate k and initial value x0 (override or operator   *)
(*   default), per edge its weight.                                        *)
(* Layer P: Compile as the code does it: operator-cache lookup, default    *)
(*   filling, node cache lookup / extension when vectorising, clear.       *)
(* Named deviations (Dev) switch on the behaviours in which P is known to  *)
(* (or could plausibly) differ from M.                                     *)
(*                                                                         *)
(* Operators are "x' = -eqv*k*x + u": the observable of a compile is, per  *)
(* unit of the compiled model, its initial value and dy/x at the initial   *)
(* state, which identifies (x0, eqv*k, incoming weights) exactly.          *)
(***************************************************************************)
EXTENDS Integers, Sequences, FiniteSets, TLC, TLCExt, Json

CONSTANTS Circs,      \* the circuits the explored calls address (a subset of CircIds)
          Dev,        \* enabled deviations
          Calls,      \* set of call kinds enabled in this configuration
          MaxLen      \* bound on the history length

AllDev == {"OpCacheKeyedByName", "NodeCacheSurvives", "ApplyWritesVariations", "ToYamlWritesDefaults", "ClearSkipsWhenNoIR",
           "CollectEdgesAppends", "UpdateVarNoCopy", "EdgeMapStale", "StateStash", "TemplateCacheByPath", "UpdateVarInPlaceWhenPrivate", "DerivedSharesEdgeDicts", "DeriveAppendsToEdgelessBase"}

(* ------------------------------ the universe ------------------------------ *)
OpIds == {"o1", "o2", "o3", "o4"}
Ops == [o1 |-> [name |-> "A", eqv |-> 1, k |-> 2, x0 |-> 10],
        o2 |-> [name |-> "A", eqv |-> 2, k |-> 3, x0 |-> 20],     \* same name as o1, other equation and defaults
        o3 |-> [name |-> "B", eqv |-> 1, k |-> 5, x0 |-> 30],     \* other name, same structure as o1
        o4 |-> [name |-> "Y", eqv |-> 2, k |-> 4, x0 |-> 50]]     \* the operator of the circuit that lives in a YAML file
Unset == -1                           \* 'no override'; 0 is a legal override value
NtIds == {"t1", "t2", "t3", "t4", "t5", "t6"}
NtOp  == [t1 |-> "o1", t2 |-> "o2", t3 |-> "o3", t4 |-> "o1", t5 |-> "o4", t6 |-> "o2"]
NtVar0 == [t1 |-> [k |-> Unset, x0 |-> Unset], t2 |-> [k |-> Unset, x0 |-> Unset],
           t3 |-> [k |-> 7, x0 |-> Unset],     t4 |-> [k |-> Unset, x0 |-> 15], t5 |-> [k |-> Unset, x0 |-> Unset],
           t6 |-> [k |-> 6, x0 |-> Unset]]
CircIds == {"c1", "c2", "c3", "cy", "d1", "d2"}  \* d1: c1.update_template(name="d1") - a derived circuit that shares c1's node objects;        \* cy: the template obtained from CircuitTemplate.from_yaml(path)
(* c1: a and b share one NodeTemplate object, c shares only the operator; c2: an operator with the same *name* as
   c1's; c3: shares the template object t1 with c1 and has an operator of the same *structure* under another name *)
CircNodes0 == [c1 |-> <<[n |-> "a", t |-> "t1"], [n |-> "b", t |-> "t1"], [n |-> "c", t |-> "t4"]>>,
               c2 |-> <<[n |-> "a", t |-> "t6"], [n |-> "b", t |-> "t2"]>>,      \* a (applied first) overrides k of the operator that b uses as declared
               c3 |-> <<[n |-> "a", t |-> "t3"], [n |-> "b", t |-> "t1"]>>,
               cy |-> <<[n |-> "a", t |-> "t5"]>>,
               d1 |-> <<[n |-> "a", t |-> "t1"], [n |-> "b", t |-> "t1"], [n |-> "c", t |-> "t4"]>>,
               d2 |-> <<[n |-> "a", t |-> "t6"], [n |-> "b", t |-> "t2"]>>]       \* d2 = c2.update_template(name="d2", edges=[a -> b]): c2 has no edges
CircEdges0 == [c1 |-> <<[s |-> 1, t |-> 2, w |-> 4], [s |-> 3, t |-> 1, w |-> 6]>>, c2 |-> <<>>,
               c3 |-> <<[s |-> 1, t |-> 2, w |-> 8]>>, cy |-> <<>>,
               d1 |-> <<[s |-> 1, t |-> 2, w |-> 4], [s |-> 3, t |-> 1, w |-> 6]>>, d2 |-> <<>>]
(* the edges of c1 and c3 use EdgeTemplates whose operators share the name "E" but multiply by different gains *)
EdgeGain0 == [c1 |-> 3, c2 |-> 1, c3 |-> 6, cy |-> 1, d1 |-> 3, d2 |-> 1]
(* an extrinsic input (constant array) on the first node when a compile is asked for one *)
InpVal == [c1 |-> 7, c2 |-> 11, c3 |-> 13, cy |-> 17, d1 |-> 19, d2 |-> 23]
VarNames == {"k", "x0"}
NewVals == [k |-> 9, x0 |-> 40]          \* values written by overrides (distinct from every default)

(* --------------------------------- state ---------------------------------- *)
VARIABLES tv,        \* NtId -> [k, x0]     variation dict of each shared NodeTemplate object
          od,        \* OpId -> [k, x0]     default values stored in each OperatorTemplate
          cn,        \* CircId -> Seq([n, t, own, pv])  node entries; own = TRUE: private (deep-copied) template with
                     \*                                 variations pv; own = FALSE: variations are tv[t] (shared object)
          ce,        \* CircId -> Seq([s, t, w])       edge list
          opCache,   \* operator name -> OpId | "none"
          nodeCache, \* structure hash (eqv) -> Seq(unit) of the cached vectorised node
          stash,     \* CircId -> "none" | [sizes, vals]: the state a template remembers from its first compile
                     \*   (CircuitTemplate._state_var_values, keyed by backend variable, imposed on later compiles)
          yhot,      \* template_cache holds the template of the YAML path
          yhas,      \* the user holds a template obtained from from_yaml (circuit "cy" exists)
          hasIr,     \* per circuit: the template still holds the IR of its last compile (clear=False)
          dhas,      \* the derived circuit d1 exists
          d2has,     \* the circuit d2 derived from the edge-less c2 exists
          alias,     \* node index -> d1's entry and c1's entry are one (privately copied) NodeTemplate object
          yfresh,    \* M (ghost): the template the user holds should still be exactly what the file says
          handles,   \* functions returned earlier: Seq([c, units])
          last,      \* observable of the last call
          fired,     \* deviations that have influenced an observable so far
          tr         \* call history (hidden from the fingerprint)
vars == <<tv, od, cn, ce, opCache, nodeCache, stash, yhot, yhas, hasIr, dhas, d2has, alias, yfresh, handles, last, fired, tr>>
View == <<tv, od, cn, ce, opCache, nodeCache, stash, yhot, yhas, hasIr, dhas, d2has, alias, yfresh, handles, last, fired>>

NoObs == [kind |-> "none", c |-> "none", units |-> <<>>, expect |-> <<>>, exc |-> "none", dec |-> FALSE]
NoStash == [sizes |-> <<>>, vals |-> <<>>]
Hashes == {1, 2}
EmptyNodeCache == [h \in Hashes |-> <<>>]
EmptyOpCache == [nm \in {"A", "B", "Y", "E"} |-> "none"]      \* "E": the circuit whose edge operator is cached

Init == /\ tv = NtVar0
        /\ od = [o \in OpIds |-> [k |-> Ops[o].k, x0 |-> Ops[o].x0]]
        /\ cn = [c \in CircIds |-> [i \in 1..Len(CircNodes0[c]) |->
                    [n |-> CircNodes0[c][i].n, t |-> CircNodes0[c][i].t, own |-> FALSE, pv |-> [k |-> Unset, x0 |-> Unset]]]]
        /\ ce = CircEdges0
        /\ opCache = EmptyOpCache /\ nodeCache = EmptyNodeCache
        /\ stash = [c \in CircIds |-> NoStash]
        /\ yhot = FALSE /\ yhas = FALSE /\ yfresh = FALSE /\ hasIr = [c \in CircIds |-> FALSE]
        /\ dhas = FALSE /\ d2has = FALSE /\ alias = [i \in 1..3 |-> FALSE]
        /\ handles = <<>> /\ last = NoObs /\ fired = {} /\ tr = <<>>

(* ------------------------------- layer M ---------------------------------- *)
VarOf(c, i) == IF cn[c][i].own THEN cn[c][i].pv ELSE tv[cn[c][i].t]
OpOf(c, i) == NtOp[cn[c][i].t]
Pick(v, d) == IF v = Unset THEN d ELSE v
InWG(c, i, g) == [q \in 1..Len(ce[c]) |-> IF ce[c][q].t = i THEN [s |-> ce[c][q].s, w |-> ce[c][q].w * g] ELSE [s |-> 0, w |-> 0]]
InW(c, i) == InWG(c, i, EdgeGain0[c])
(* unit = [n, x0, k, eqv, inw]; inw = incoming edges as (source node index, weight), 0-entries for "not mine" *)
MeaningWith(c, tvv, odd, cnn, cee) ==
  [i \in 1..Len(cnn[c]) |->
     LET v == IF cnn[c][i].own THEN cnn[c][i].pv ELSE tvv[cnn[c][i].t]
         o == NtOp[cnn[c][i].t]
     IN [n |-> cnn[c][i].n, x0 |-> Pick(v.x0, odd[o].x0), k |-> Pick(v.k, odd[o].k), eqv |-> Ops[o].eqv, ext |-> 0,
         inw |-> [q \in 1..Len(cee[c]) |-> IF cee[c][q].t = i THEN [s |-> cee[c][q].s, w |-> cee[c][q].w * EdgeGain0[c]]
                                                                 ELSE [s |-> 0, w |-> 0]]]]
Meaning(c) == MeaningWith(c, tv, od, cn, ce)
Meaning0(c) == MeaningWith(c, NtVar0, [o \in OpIds |-> [k |-> Ops[o].k, x0 |-> Ops[o].x0]],
                           [cc \in CircIds |-> [i \in 1..Len(CircNodes0[cc]) |->
                               [n |-> CircNodes0[cc][i].n, t |-> CircNodes0[cc][i].t, own |-> FALSE,
                                pv |-> [k |-> Unset, x0 |-> Unset]]]], CircEdges0)

(* ------------------------------- layer P ---------------------------------- *)
(* One node of a compile: operator-cache lookup (by name), default filling, node-cache lookup (by structure hash).
   acc = [oc, nc, units, stale, dv]; nv = values passed through node_values for this node (Unset when none). *)
EdgeOpOwner(oc, c) == IF oc["E"] # "none" /\ "OpCacheKeyedByName" \in Dev THEN oc["E"] ELSE c
ApplyNode(acc, c, i, vec, nv) ==
  LET o    == OpOf(c, i)
      nm   == Ops[o].name
      hit  == acc.oc[nm] # "none"
      src  == IF hit /\ "OpCacheKeyedByName" \in Dev THEN acc.oc[nm] ELSE o
      v    == VarOf(c, i)
      unit == [n |-> cn[c][i].n,
               x0 |-> Pick(nv.x0, Pick(v.x0, od[src].x0)), k |-> Pick(nv.k, Pick(v.k, od[src].k)),
               eqv |-> Ops[src].eqv, ext |-> 0, inw |-> InWG(c, i, EdgeGain0[EdgeOpOwner(acc.oc, c)])]
      h    == Ops[src].eqv
      old  == acc.nc[h]
      ext  == vec /\ old # <<>>
  IN [oc |-> [acc.oc EXCEPT ![nm] = IF hit THEN acc.oc[nm] ELSE o],
      nc |-> [acc.nc EXCEPT ![h] = IF ext THEN Append(old, [unit EXCEPT !.inw = <<>>]) ELSE <<[unit EXCEPT !.inw = <<>>]>>],
      units |-> Append(acc.units, unit),
      stale |-> acc.stale \o (IF ext THEN <<>> ELSE <<>>),
      dv |-> acc.dv \cup (IF src # o /\ (od[src] # od[o] \/ Ops[src].eqv # Ops[o].eqv) THEN {"OpCacheKeyedByName"} ELSE {})]

RECURSIVE FoldNodes(_, _, _, _, _)
FoldNodes(acc, c, i, vec, nvs) ==
  IF i > Len(cn[c]) THEN acc ELSE FoldNodes(ApplyNode(acc, c, i, vec, nvs[i]), c, i + 1, vec, nvs)

(* the units of the compiled model: this circuit's units plus, when vectorising into a cached node that survived
   from an earlier compile, that node's earlier units *)
StaleUnits(nc0, res, vec) ==
  IF ~vec THEN <<>>
  ELSE LET hs == {res.units[j].eqv : j \in 1..Len(res.units)} IN
       LET RECURSIVE Cat(_)
           Cat(S) == IF S = {} THEN <<>> ELSE LET h == CHOOSE h \in S : TRUE IN nc0[h] \o Cat(S \ {h})
       IN Cat(hs)

NoNv(c) == [i \in 1..Len(cn[c]) |-> [k |-> Unset, x0 |-> Unset]]

(* backend state variables of a compiled model: without vectorisation one scalar variable per node; with
   vectorisation one vector variable per structure hash, in order of first appearance.  Groups(units, vec) is the
   sequence of index sets (as sequences) of the units behind each backend variable. *)
Groups(units, vec) ==
  IF ~vec THEN [j \in 1..Len(units) |-> <<j>>]
  ELSE LET hs == {units[j].eqv : j \in 1..Len(units)}
           firstOf(h) == CHOOSE j \in 1..Len(units) : units[j].eqv = h /\ \A j2 \in 1..Len(units) : units[j2].eqv = h => j <= j2
           RECURSIVE Ord(_)
           Ord(S) == IF S = {} THEN <<>>
                     ELSE LET h == CHOOSE h \in S : \A h2 \in S : firstOf(h) <= firstOf(h2) IN <<h>> \o Ord(S \ {h})
           members(h) == LET RECURSIVE Mem(_)
                             Mem(j) == IF j > Len(units) THEN <<>> ELSE (IF units[j].eqv = h THEN <<j>> ELSE <<>>) \o Mem(j + 1)
                         IN Mem(1)
       IN [q \in 1..Len(Ord(hs)) |-> members(Ord(hs)[q])]

(* imposing the remembered state: for every remembered variable (in order) the variable must exist (else KeyError)
   and have the same size (else ValueError from reshape); then its value replaces the declared initial value *)
ImposeExc(st, grp) ==
  LET bad == {q \in 1..Len(st.sizes) : q > Len(grp) \/ st.sizes[q] # Len(grp[q])} IN
  IF bad = {} THEN "none"
  ELSE LET q == CHOOSE q \in bad : \A q2 \in bad : q <= q2 IN IF q > Len(grp) THEN "KeyError" ELSE "ValueError"
Impose(st, grp, units) ==
  [j \in 1..Len(units) |->
     LET qs == {q \in 1..Len(st.sizes) : \E p \in 1..Len(grp[q]) : grp[q][p] = j} IN
     IF qs = {} THEN units[j]
     ELSE LET q == CHOOSE q \in qs : TRUE
              p == CHOOSE p \in 1..Len(grp[q]) : grp[q][p] = j
          IN [units[j] EXCEPT !.x0 = st.vals[q][p]]]

CompileWith(c, vec, clr, nvs, kind, inp) ==
  LET nc0 == IF "NodeCacheSurvives" \in Dev THEN nodeCache ELSE EmptyNodeCache
      res0 == FoldNodes([oc |-> opCache, nc |-> nc0, units |-> <<>>, stale |-> <<>>, dv |-> {}], c, 1, vec, nvs)
      owner == EdgeOpOwner(opCache, c)
      \* edges are applied after the nodes: their operator "E" enters the name-keyed cache; the input is wired to node 1
      res == [res0 EXCEPT !.oc = IF Len(ce[c]) > 0 /\ res0.oc["E"] = "none" THEN [res0.oc EXCEPT !["E"] = c] ELSE res0.oc,
                          !.units = IF inp THEN [res0.units EXCEPT ![1].ext = InpVal[c]] ELSE res0.units,
                          !.dv = res0.dv \cup (IF Len(ce[c]) > 0 /\ EdgeGain0[owner] # EdgeGain0[c] THEN {"OpCacheKeyedByName"} ELSE {})]
      stale == StaleUnits(nc0, res, vec)
      exp == [i \in 1..Len(cn[c]) |-> [Meaning(c)[i] EXCEPT !.x0 = Pick(nvs[i].x0, @), !.k = Pick(nvs[i].k, @),
                                                              !.ext = IF inp /\ i = 1 THEN InpVal[c] ELSE 0]]
      grp == Groups(res.units, vec)
      st  == stash[c]
      useStash == "StateStash" \in Dev /\ st # NoStash
      exc == IF useStash THEN ImposeExc(st, grp) ELSE "none"
      out == IF useStash /\ exc = "none" THEN Impose(st, grp, res.units) ELSE res.units
      dvs == res.dv \cup (IF stale # <<>> THEN {"NodeCacheSurvives"} ELSE {})
                   \cup (IF c = "cy" /\ yfresh /\ (Meaning(c) # Meaning0(c) \/ stash[c] # NoStash) THEN {"TemplateCacheByPath"} ELSE {})
                   \cup (IF useStash /\ (exc # "none" \/ out # res.units) THEN {"StateStash"} ELSE {})
  IN /\ last' = [kind |-> IF kind = "compile_dec" THEN "compile" ELSE kind, c |-> c, units |-> IF exc = "none" THEN out \o stale ELSE <<>>,
                 expect |-> IF c = "cy" /\ yfresh THEN [i \in 1..Len(cn[c]) |-> [Meaning0(c)[i] EXCEPT !.x0 = Pick(nvs[i].x0, @), !.k = Pick(nvs[i].k, @),
                                                                                             !.ext = IF inp /\ i = 1 THEN InpVal[c] ELSE 0]] ELSE exp,
                 exc |-> exc, dec |-> kind = "compile_dec"]
     /\ fired' = fired \cup dvs
     /\ stash' = IF "StateStash" \in Dev /\ st = NoStash /\ exc = "none"
                 THEN [stash EXCEPT ![c] = [sizes |-> [q \in 1..Len(grp) |-> Len(grp[q])],
                                            vals |-> [q \in 1..Len(grp) |-> [p \in 1..Len(grp[q]) |-> out[grp[q][p]].x0]]]]
                 ELSE stash
     /\ opCache' = IF clr \/ exc # "none" THEN (IF exc # "none" THEN res.oc ELSE EmptyOpCache) ELSE res.oc
     /\ nodeCache' = IF clr /\ exc = "none" THEN EmptyNodeCache ELSE res.nc
     /\ handles' = IF clr \/ exc # "none" \/ Len(handles) >= 2 THEN handles ELSE Append(handles, [c |-> c, units |-> out \o stale])
     /\ (IF "ApplyWritesVariations" \in Dev
         THEN \* defaults and passed values are written through the alias into the template's variation dict
              /\ tv' = [t \in NtIds |->
                          LET js == {j \in 1..Len(cn[c]) : ~cn[c][j].own /\ cn[c][j].t = t} IN
                          IF js = {} THEN tv[t]
                          ELSE LET j == CHOOSE j \in js : \A j2 \in js : j2 <= j IN
                               [k |-> res.units[j].k, x0 |-> res.units[j].x0]]
              /\ cn' = [cn EXCEPT ![c] = [j \in 1..Len(cn[c]) |->
                          IF cn[c][j].own THEN [cn[c][j] EXCEPT !.pv = [k |-> res.units[j].k, x0 |-> res.units[j].x0]]
                          ELSE cn[c][j]]]
         ELSE UNCHANGED <<tv, cn>>)
     /\ hasIr' = IF exc = "none" THEN [hasIr EXCEPT ![c] = ~clr] ELSE hasIr
     /\ UNCHANGED <<od, ce, yhot, yhas, yfresh, dhas, d2has, alias>>

Usable(c) == (c = "cy" => yhas) /\ (c = "d1" => dhas) /\ (c = "d2" => d2has)
Compile(c, vec, clr, dec, inp) ==
  /\ "compile" \in Calls /\ Usable(c) /\ (dec => "decorator" \in Calls) /\ (inp => "input" \in Calls)
  /\ CompileWith(c, vec, clr, NoNv(c), IF dec THEN "compile_dec" ELSE "compile", inp)
  /\ tr' = Append(tr, [a |-> "compile", c |-> c, vec |-> vec, clr |-> clr, node |-> 0, var |-> "", val |-> 0, dec |-> dec, inp |-> inp])

(* get_run_func(..., node_values={'<node>/<op>/<var>': val}): the value reaches the compiled model, not the template *)
Targets(c, sel) == IF sel = 0 THEN 1..Len(cn[c]) ELSE {sel}
UniformOp(c) == \A i, j \in 1..Len(cn[c]) : Ops[OpOf(c, i)].name = Ops[OpOf(c, j)].name   \* 'all/<op>/<var>' then addresses every node
OverrideVal(base, ts, i, arr, zero) ==      \* scalar: base (or 0); array: base + i per addressed node (the last one 0)
  LET lst == CHOOSE m \in ts : \A m2 \in ts : m2 <= m IN
  IF arr THEN (IF zero /\ i = lst THEN 0 ELSE base + i) ELSE (IF zero THEN 0 ELSE base)
CompileNV(c, sel, var, arr, zero, vec) ==
  /\ "compile_nv" \in Calls /\ Usable(c) /\ (sel = 0 => UniformOp(c))
  /\ LET ts == Targets(c, sel) IN
     CompileWith(c, vec, TRUE, [i \in 1..Len(cn[c]) |-> IF i \in ts THEN [NoNv(c)[i] EXCEPT ![var] = OverrideVal(NewVals[var] + 1, ts, i, arr, zero)]
                                                         ELSE NoNv(c)[i]], "compile", FALSE)
  /\ tr' = Append(tr, [a |-> "compile_nv", c |-> c, vec |-> vec, clr |-> TRUE, node |-> sel, var |-> var, val |-> NewVals[var] + 1, dec |-> FALSE,
                        arr |-> arr, zero |-> zero])

(* update_var(node_vars={'<node | all>/<op>/<var>': val}): deep-copies the node template of every addressed node *)
UpdateVar(c, sel, var, arr, zero) ==
  /\ "update_var" \in Calls /\ (sel = 0 => UniformOp(c)) /\ Usable(c)
  /\ LET ts == Targets(c, sel)
         val(i) == OverrideVal(NewVals[var], ts, i, arr, zero)          \* array value: one entry per addressed node
     IN IF "UpdateVarNoCopy" \in Dev
        THEN /\ tv' = [t \in NtIds |-> LET js == {j \in ts : ~cn[c][j].own /\ cn[c][j].t = t} IN
                                       IF js = {} THEN tv[t]
                                       ELSE [tv[t] EXCEPT ![var] = val(CHOOSE j \in js : \A j2 \in js : j2 <= j)]]
             /\ cn' = [cn EXCEPT ![c] = [j \in 1..Len(cn[c]) |->
                          IF j \in ts /\ cn[c][j].own THEN [cn[c][j] EXCEPT !.pv[var] = val(j)] ELSE cn[c][j]]]
        ELSE LET pair == c \in {"c1", "d1"}
                 other == IF c = "c1" THEN "d1" ELSE "c1"
                 \* a node that is already a private copy shared with the derived / base circuit: the implementation copies
                 \* again (the two circuits separate); the deviation writes into the shared object
                 inplace(j) == "UpdateVarInPlaceWhenPrivate" \in Dev /\ pair /\ cn[c][j].own /\ alias[j]
                 upd(e, j) == [e EXCEPT !.own = TRUE, !.pv = [VarOf(c, j) EXCEPT ![var] = val(j)]]
             IN /\ cn' = [cc \in CircIds |->
                            IF cc = c THEN [j \in 1..Len(cn[c]) |-> IF j \in ts THEN upd(cn[c][j], j) ELSE cn[c][j]]
                            ELSE IF pair /\ cc = other THEN [j \in 1..Len(cn[cc]) |-> IF j \in ts /\ inplace(j) THEN upd(cn[c][j], j) ELSE cn[cc][j]]
                            ELSE cn[cc]]
                /\ alias' = IF pair THEN [j \in 1..3 |-> IF j \in ts /\ ~inplace(j) THEN FALSE ELSE alias[j]] ELSE alias
                /\ UNCHANGED tv
  /\ (IF "UpdateVarNoCopy" \in Dev THEN UNCHANGED alias ELSE TRUE)
  /\ yfresh' = (IF c = "cy" THEN FALSE ELSE yfresh) /\ UNCHANGED <<yhot, yhas, hasIr, dhas, d2has>>
  /\ last' = NoObs
  /\ tr' = Append(tr, [a |-> "update_var", c |-> c, vec |-> arr, clr |-> FALSE, node |-> sel, var |-> var, val |-> NewVals[var], dec |-> FALSE, zero |-> zero])
  /\ UNCHANGED <<od, ce, opCache, nodeCache, stash, handles, fired>>

(* update_var(edge_vars=[(source, target, {'weight': w})]) *)
UpdateEdge(c, q) ==
  /\ "update_edge" \in Calls /\ q \in 1..Len(ce[c]) /\ Usable(c)
  /\ LET other == IF c = "c1" THEN "d1" ELSE "c1"
         \* historic deviation: a derived circuit referenced the attribute dicts of its base's edges
         both == "DerivedSharesEdgeDicts" \in Dev /\ c \in {"c1", "d1"} /\ dhas
     IN ce' = [cc \in CircIds |-> IF cc = c \/ (both /\ cc = other /\ q <= Len(ce[cc]) /\ q <= Len(CircEdges0["c1"]))
                                    THEN [ce[cc] EXCEPT ![q].w = 50 + q] ELSE ce[cc]]
  /\ last' = NoObs
  /\ tr' = Append(tr, [a |-> "update_edge", c |-> c, vec |-> FALSE, clr |-> FALSE, node |-> q, var |-> "weight", val |-> 50 + q, dec |-> FALSE])
  /\ UNCHANGED <<tv, od, cn, opCache, nodeCache, stash, yhot, yhas, yfresh, hasIr, dhas, d2has, alias, handles, fired>>

(* read-only / copy-making calls: get_nodes, get_edges (collect_edges), to_yaml, deepcopy, update_template() copy *)
ReadOnly(c, what) ==
  /\ Usable(c) /\ what \in Calls /\ what \in {"get_nodes", "collect_edges", "to_yaml", "deepcopy", "update_template_copy", "getitem"}
  /\ (IF what = "to_yaml" /\ "ToYamlWritesDefaults" \in Dev
      THEN od' = [o \in OpIds |->
                    LET js == {j \in 1..Len(cn[c]) : OpOf(c, j) = o} IN
                    IF js = {} THEN od[o]
                    ELSE LET j == CHOOSE j \in js : \A j2 \in js : j2 <= j IN
                         [k |-> Pick(VarOf(c, j).k, od[o].k), x0 |-> Pick(VarOf(c, j).x0, od[o].x0)]]
      ELSE UNCHANGED od)
  /\ (IF what = "collect_edges" /\ "CollectEdgesAppends" \in Dev /\ ce[c] # <<>>
      THEN ce' = [ce EXCEPT ![c] = Append(@, @[1])]
      ELSE UNCHANGED ce)
  /\ last' = NoObs
  /\ tr' = Append(tr, [a |-> what, c |-> c, vec |-> FALSE, clr |-> FALSE, node |-> 0, var |-> "", val |-> 0, dec |-> FALSE])
  /\ UNCHANGED <<tv, cn, opCache, nodeCache, stash, yhot, yhas, yfresh, hasIr, dhas, d2has, alias, handles, fired>>

ClearAll ==            \* pyrates.clear_frontend_caches()
  /\ "clear_frontend_caches" \in Calls
  /\ opCache' = EmptyOpCache /\ nodeCache' = EmptyNodeCache
  /\ last' = NoObs
  /\ tr' = Append(tr, [a |-> "clear_frontend_caches", c |-> "none", vec |-> FALSE, clr |-> FALSE, node |-> 0, var |-> "", val |-> 0, dec |-> FALSE])
  /\ UNCHANGED <<tv, od, cn, ce, stash, yhas, yfresh, hasIr, dhas, d2has, alias, handles, fired>>
  /\ yhot' = FALSE

FreshCy == [i \in 1..Len(CircNodes0["cy"]) |-> [n |-> CircNodes0["cy"][i].n, t |-> CircNodes0["cy"][i].t, own |-> FALSE, pv |-> [k |-> Unset, x0 |-> Unset]]]
LoadYaml ==            \* cy = CircuitTemplate.from_yaml(path): cached by path; the cached *object* is handed out again
  /\ "from_yaml" \in Calls
  /\ LET hit == yhot /\ "TemplateCacheByPath" \in Dev IN
       /\ cn' = IF hit THEN cn ELSE [cn EXCEPT !["cy"] = FreshCy]
       /\ stash' = IF hit THEN stash ELSE [stash EXCEPT !["cy"] = NoStash]
       /\ hasIr' = IF hit THEN hasIr ELSE [hasIr EXCEPT !["cy"] = FALSE]
  /\ yhot' = TRUE /\ yhas' = TRUE /\ yfresh' = TRUE
  /\ last' = NoObs
  /\ tr' = Append(tr, [a |-> "from_yaml", c |-> "cy", vec |-> FALSE, clr |-> FALSE, node |-> 0, var |-> "", val |-> 0, dec |-> FALSE])
  /\ UNCHANGED <<tv, od, ce, opCache, nodeCache, dhas, d2has, alias, handles, fired>>

ClearModel(c) ==       \* pyrates.clear(model): model.clear() if it holds an IR (AttributeError swallowed otherwise), then
                       \* clear_frontend_caches()
  /\ "clear_model" \in Calls /\ Usable(c)
  /\ LET skip == "ClearSkipsWhenNoIR" \in Dev /\ ~hasIr[c] IN
       /\ opCache' = (IF skip THEN opCache ELSE EmptyOpCache) /\ nodeCache' = (IF skip THEN nodeCache ELSE EmptyNodeCache)
       /\ yhot' = (IF skip THEN yhot ELSE FALSE)
  /\ stash' = IF hasIr[c] THEN [stash EXCEPT ![c] = NoStash] ELSE stash       \* CircuitTemplate.clear forgets the state
  /\ hasIr' = [hasIr EXCEPT ![c] = FALSE]
  /\ last' = NoObs
  /\ tr' = Append(tr, [a |-> "clear_model", c |-> c, vec |-> FALSE, clr |-> FALSE, node |-> 0, var |-> "", val |-> 0, dec |-> FALSE])
  /\ UNCHANGED <<tv, od, cn, ce, yhas, yfresh, dhas, d2has, alias, handles, fired>>

ExtraEdge == [s |-> 2, t |-> 3, w |-> 2]     \* the edge a derivation may add (b -> c, same edge template as c1's edges)
Derive(withEdge) ==    \* d1 = c1.update_template(name='d1' [, edges=[extra]]): a new circuit object that references c1's node templates
  /\ "derive" \in Calls
  /\ cn' = [cn EXCEPT !["d1"] = cn["c1"]] /\ ce' = [ce EXCEPT !["d1"] = ce["c1"] \o (IF withEdge THEN <<ExtraEdge>> ELSE <<>>)]
  /\ stash' = [stash EXCEPT !["d1"] = NoStash] /\ hasIr' = [hasIr EXCEPT !["d1"] = FALSE]
  /\ dhas' = TRUE /\ alias' = [j \in 1..3 |-> cn["c1"][j].own]
  /\ last' = NoObs
  /\ tr' = Append(tr, [a |-> "derive", c |-> "d1", vec |-> withEdge, clr |-> FALSE, node |-> 0, var |-> "", val |-> 0, dec |-> FALSE])
  /\ UNCHANGED <<tv, od, opCache, nodeCache, yhot, yhas, yfresh, d2has, handles, fired>>

ExtraEdge2 == [s |-> 1, t |-> 2, w |-> 2]
Derive2 ==             \* d2 = c2.update_template(name='d2', edges=[a -> b]) - the base circuit has no edges of its own
  /\ "derive2" \in Calls
  /\ cn' = [cn EXCEPT !["d2"] = cn["c2"]]
  /\ ce' = [ce EXCEPT !["d2"] = ce["c2"] \o <<ExtraEdge2>>,
                      !["c2"] = IF "DeriveAppendsToEdgelessBase" \in Dev /\ ce["c2"] = <<>> THEN <<ExtraEdge2>> ELSE ce["c2"]]
  /\ stash' = [stash EXCEPT !["d2"] = NoStash] /\ hasIr' = [hasIr EXCEPT !["d2"] = FALSE]
  /\ d2has' = TRUE
  /\ last' = NoObs
  /\ tr' = Append(tr, [a |-> "derive2", c |-> "d2", vec |-> TRUE, clr |-> FALSE, node |-> 0, var |-> "", val |-> 0, dec |-> FALSE])
  /\ UNCHANGED <<tv, od, opCache, nodeCache, yhot, yhas, yfresh, dhas, alias, handles, fired>>

CallEarlier(hd) ==     \* evaluate a function returned by an earlier compile: it keeps computing its own model
  /\ "call_earlier" \in Calls /\ hd \in 1..Len(handles)
  /\ last' = [kind |-> "call", c |-> handles[hd].c, units |-> handles[hd].units, expect |-> handles[hd].units, exc |-> "none", dec |-> FALSE]
  /\ tr' = Append(tr, [a |-> "call_earlier", c |-> handles[hd].c, vec |-> FALSE, clr |-> FALSE, node |-> hd, var |-> "", val |-> 0, dec |-> FALSE])
  /\ UNCHANGED <<tv, od, cn, ce, opCache, nodeCache, stash, yhot, yhas, yfresh, hasIr, dhas, d2has, alias, handles, fired>>

Next ==
  \/ \E c \in Circs, vec \in BOOLEAN, clr \in BOOLEAN, dec \in BOOLEAN, inp \in BOOLEAN : Compile(c, vec, clr, dec, inp)
  \/ LoadYaml
  \/ \E withEdge \in BOOLEAN : Derive(withEdge)
  \/ Derive2
  \/ \E c \in Circs : ClearModel(c)
  \/ \E c \in Circs, vec \in BOOLEAN : \E sel \in 0..Len(cn[c]) : \E var \in VarNames, arr \in BOOLEAN, zero \in BOOLEAN :
         (arr => sel = 0) /\ (zero => "zero" \in Calls) /\ CompileNV(c, sel, var, arr, zero, vec)
  \/ \E c \in Circs : \E sel \in 0..Len(cn[c]) : \E var \in VarNames, arr \in BOOLEAN, zero \in BOOLEAN :
         (arr => sel = 0) /\ (zero => "zero" \in Calls) /\ UpdateVar(c, sel, var, arr, zero)
  \/ \E c \in Circs : \E q \in 1..Len(ce[c]) : UpdateEdge(c, q)
  \/ \E c \in Circs, what \in Calls : ReadOnly(c, what)
  \/ ClearAll
  \/ \E hd \in 1..2 : CallEarlier(hd)
Bound == Len(tr) <= MaxLen
Spec == Init /\ [][Next]_vars

(* ------------------------------ properties -------------------------------- *)
IsCompile == last.kind \in {"compile", "call"}
(* C13: what a compile returns is a function of the template alone, whatever happened before *)
HistoryIndependent == IsCompile => (last.units = last.expect /\ last.exc = "none")
(* with the known deviations enabled: any difference is explained by a deviation that fired *)
OnlyKnown == (IsCompile /\ (last.units # last.expect \/ last.exc # "none")) => fired # {}
(* the class of histories in which the surviving node cache was used is kept out of the export (pinned reproducers) *)
NoStaleNodeCache == "NodeCacheSurvives" \notin fired
(* C14: read-only and copy-making calls, and compiles with in_place=False, leave every template's meaning unchanged *)
(* C13: clear(model) resets every process-wide cache, whether or not the model still holds an IR *)
ClearModelClears ==
  [][ (tr' # tr /\ tr'[Len(tr')].a = "clear_model") => (opCache' = EmptyOpCache /\ nodeCache' = EmptyNodeCache /\ ~yhot') ]_vars
(* restriction of the exploration to histories about the YAML-loaded circuit (deeper bound) *)
(* a history-sensitive view: states reached by different sequences of call kinds are kept apart, so that the export
   covers every sequence of kinds (path coverage of the implementation) and not only every abstract state *)
Sig == [i \in 1..Len(tr) |-> <<tr[i].a, tr[i].c, tr[i].clr>>]
ViewSig == <<View, Sig>>
PlainCalls == \A i \in 1..Len(tr) : /\ (tr[i].a \in {"compile", "compile_nv"} => ~tr[i].vec /\ ~tr[i].dec)
                                     /\ (tr[i].a = "compile" => ~tr[i].inp)
                                     /\ (tr[i].a = "update_var" => tr[i].node # 0)
(* C07 quick tier: compiles clear their caches (the clear flag is C13's subject) *)
ClearingCompiles == /\ \A i \in 1..Len(tr) : tr[i].a = "compile" => tr[i].clr
                    /\ Cardinality({i \in 1..Len(tr) : tr[i].a = "compile_nv"}) <= 1
(* quick tiers: the decorator and the input are exercised on plain (non-vectorised) compiles, one at a time *)
FewFlags == \A i \in 1..Len(tr) : /\ (tr[i].a = "compile" => (~(tr[i].dec /\ tr[i].inp) /\ ((tr[i].dec \/ tr[i].inp) => ~tr[i].vec)))
                                   /\ (tr[i].a = "compile_nv" => tr[i].node # 0)          \* all/ node_values: C07
(* restriction to histories about c1 and the circuit derived from it *)
OnlyPair == \A i \in 1..Len(tr) : tr[i].c \in {"c1", "d1"}
OnlyCy == \A i \in 1..Len(tr) : tr[i].c \in {"cy", "none"}
ReadOnlyKinds == {"compile", "compile_nv", "get_nodes", "collect_edges", "to_yaml", "deepcopy", "update_template_copy",
                  "getitem", "clear_frontend_caches", "call_earlier", "clear_model"}
(* C13: from_yaml yields the model the file describes, whatever was done to templates loaded from it earlier *)
LoadYieldsFile ==
  [][ (tr' # tr /\ tr'[Len(tr')].a = "from_yaml") =>
        /\ Meaning("cy")' = Meaning0("cy") /\ stash'["cy"] = NoStash
        /\ \A c \in CircIds \ {"cy"} : Meaning(c)' = Meaning(c) ]_vars
(* C13 / C14: deriving a circuit leaves every other circuit as it was; the derived one means what its base means *)
DeriveCopies ==
  [][ (tr' # tr /\ tr'[Len(tr')].a = "derive") =>
        /\ \A i \in 1..Len(cn["c1"]) : \A v \in VarNames : Meaning("d1")'[i][v] = Meaning("c1")[i][v]
        /\ \A c \in CircIds \ {"d1"} : Meaning(c)' = Meaning(c) ]_vars
Derive2Copies ==
  [][ (tr' # tr /\ tr'[Len(tr')].a = "derive2") => \A c \in CircIds \ {"d2"} : Meaning(c)' = Meaning(c) ]_vars
ReadOnlyPreservesMeaning ==
  [][ (tr' # tr /\ tr'[Len(tr')].a \in ReadOnlyKinds) => \A c \in CircIds : Meaning(c)' = Meaning(c) ]_vars
(* C07: an override changes the addressed nodes' variable and nothing else - in any circuit *)
OnlyAddressedChange ==
  [][ (tr' # tr /\ tr'[Len(tr')].a = "update_var") =>
        LET e == tr'[Len(tr')] IN
        \A c \in CircIds : \A i \in 1..Len(cn[c]) :
           IF c = e.c /\ (e.node = 0 \/ e.node = i)
           THEN /\ Meaning(c)'[i][e.var] = OverrideVal(e.val, Targets(c, e.node), i, e.vec, e.zero)
                /\ \A v \in VarNames \ {e.var} : Meaning(c)'[i][v] = Meaning(c)[i][v]
           ELSE Meaning(c)'[i] = Meaning(c)[i] ]_vars
EdgeOverrideOnlyItsEdge ==
  [][ (tr' # tr /\ tr'[Len(tr')].a = "update_edge") =>
        LET e == tr'[Len(tr')] IN
        /\ \A c \in CircIds : \A i \in 1..Len(cn[c]) : \A v \in VarNames : Meaning(c)'[i][v] = Meaning(c)[i][v]
        /\ \A c \in CircIds : \A q \in 1..Len(ce[c]) : ce'[c][q].w = (IF c = e.c /\ q = e.node THEN e.val ELSE ce[c][q].w) ]_vars

(* export: one line per distinct abstract state whose last call produced an observable *)
SetToSeq(S) == LET RECURSIVE F(_)
                   F(T) == IF T = {} THEN <<>> ELSE LET x == CHOOSE x \in T : TRUE IN <<x>> \o F(T \ {x})
               IN F(S)
(* TLC evaluates invariants on every generated successor, seen or not: register 1 holds the fingerprints of the
   abstract states already exported so that each is printed once, with the (shortest, BFS) history that first reached it *)
InitExport == TLCSet(1, {}) /\ Init
Export == (IsCompile /\ Bound) => LET fp == TLCFP(View) IN
                       IF fp \in TLCGet(1) THEN TRUE
                       ELSE TLCSet(1, TLCGet(1) \cup {fp}) /\ PrintT(<<"BEH", ToJson([calls |-> tr, kind |-> last.kind, c |-> last.c, expM |-> last.expect,
                                                 expP |-> last.units, excP |-> last.exc, dev |-> SetToSeq(fired)])>>)
(* Export as a side effect of a stuttering action: TLC evaluates the next-state relation exactly once per distinct
   (by VIEW) state it explores, so every abstract state is printed once, with the BFS history that first reached it *)
Report == /\ IsCompile /\ Bound
          /\ PrintT(<<"BEH", ToJson([calls |-> tr, kind |-> last.kind, c |-> last.c, expM |-> last.expect,
                                      expP |-> last.units, excP |-> last.exc, dev |-> SetToSeq(fired)])>>)
          /\ UNCHANGED vars
NextExport == Next \/ Report
ExportSim == IsCompile => PrintT(<<"BEH", ToJson([calls |-> tr, kind |-> last.kind, c |-> last.c, expM |-> last.expect,
                                                    expP |-> last.units, excP |-> last.exc, dev |-> SetToSeq(fired)])>>)
=============================================================================
