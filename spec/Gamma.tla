-------------------------------- MODULE Gamma --------------------------------
(***************************************************************************)
(* Distributed delays (C11): an edge with delay d and spread s is the      *)
(* convolution of its source with a gamma kernel realised as a chain of    *)
(* n = round((d/s)^2) first-order stages of rate n/d  (dde_approx = n      *)
(* without spread).                                                        *)
(* Layer M: the explicitly written augmented ODE - every edge has its OWN  *)
(*   chain  z_1' = r (src - z_1), z_k' = r (z_{k-1} - z_k); the target     *)
(*   receives w * z_n; undelayed edges deliver the source directly.  Its   *)
(*   Euler iterates (dt = 1, integer data) are the expected rows.          *)
(* Layer P: _add_edge_buffer, ODE branch: per-edge order and rate, slots   *)
(*   grouped by (order, rate) into shared chains per source variable.      *)
(* Models: nodes as in Solver.tla (x' = c + a x + u); an edge is           *)
(*   [s, t, w, d, s2 (= spread^2 as <<num, den>>, <<0,1>> = none)].        *)
(***************************************************************************)
EXTENDS Integers, Sequences, FiniteSets, TLC, Json

CONSTANTS Cases, Dev
(* case: [m : [n, c, a, x0, kind, edges], cfg : [steps, vec, approx, form]] *)
VARIABLES cs, i, xs, zs, rec
vars == <<cs, i, xs, zs, rec>>
M == cs.m
E == M.edges
Nodes == 1..M.n

(* round half to even of the rational p/q (q > 0, p >= 0) *)
RoundHalfEven(p, q) == LET f == p \div q  r2 == 2 * (p % q) IN
                       IF r2 < q THEN f ELSE IF r2 > q THEN f + 1 ELSE (IF f % 2 = 0 THEN f ELSE f + 1)
HasSpread(e) == e.s2[1] # 0
(* order of the kernel of edge e: round((d/s)^2) = round(d^2 * den / num), at least dde_approx *)
OrderM(e) == IF e.d = 0 THEN 0
             ELSE IF HasSpread(e) THEN (LET o == RoundHalfEven(e.d * e.d * e.s2[2], e.s2[1]) IN IF o > cs.cfg.approx THEN o ELSE cs.cfg.approx)
             ELSE cs.cfg.approx
(* rate = order / d must be an integer in the explored cases *)
RateM(e) == IF e.d = 0 THEN 0 ELSE OrderM(e) \div e.d
RateIntegral(e) == e.d = 0 \/ OrderM(e) % e.d = 0

(* ----------------------------- layer M: Euler on the augmented system ----------------------------- *)
SumSeq(s) == LET RECURSIVE F(_)
                 F(j) == IF j = 0 THEN 0 ELSE s[j] + F(j - 1)
             IN F(Len(s))
(* a delayed edge without spread and without dde_approx is a plain discrete delay: it delivers the source value of d
   steps ago (0 before the start), as in Solver.tla; rec holds x_0 .. x_{i-1}, x is x_i *)
IsDiscrete(e) == e.d > 0 /\ ~HasSpread(e) /\ cs.cfg.approx = 0
PastX(n, d, x) == LET j == i - d IN IF j < 0 THEN 0 ELSE IF j = i THEN x[n] ELSE rec[j + 1][n]
Out(q, x, z) == IF IsDiscrete(E[q]) THEN PastX(E[q].s, E[q].d, x)
                ELSE IF OrderM(E[q]) = 0 THEN x[E[q].s] ELSE z[q][OrderM(E[q])]
StepX(x, z) == [n \in Nodes |-> x[n] + M.c[n] + M.a[n] * x[n]
                               + SumSeq([q \in 1..Len(E) |-> IF E[q].t = n THEN E[q].w * Out(q, x, z) ELSE 0])]
StepZ(x, z) == [q \in 1..Len(E) |-> [k \in 1..OrderM(E[q]) |->
                   z[q][k] + RateM(E[q]) * ((IF k = 1 THEN x[E[q].s] ELSE z[q][k - 1]) - z[q][k])]]

Init == /\ cs \in Cases /\ i = 0
        /\ xs = cs.m.x0
        /\ zs = [q \in 1..Len(cs.m.edges) |-> [k \in 1..OrderM(cs.m.edges[q]) |-> 0]]
        /\ rec = <<>>
Step == /\ i < cs.cfg.steps
        /\ rec' = Append(rec, xs)
        /\ xs' = StepX(xs, zs) /\ zs' = StepZ(xs, zs)
        /\ i' = i + 1 /\ UNCHANGED cs
Next == Step
Spec == Init /\ [][Next]_vars

(* ----------------------------- layer P: grouping of slots into chains ----------------------------- *)
(* per source variable, delayed edges whose (order, rate) coincide share one chain; the chain a slot reads *)
SameChain(p, q) == /\ E[p].s = E[q].s /\ OrderM(E[p]) = OrderM(E[q]) /\ RateM(E[p]) = RateM(E[q])
ChainOrderP(q) == IF "OrderFloor" \in Dev /\ HasSpread(E[q]) THEN (E[q].d * E[q].d * E[q].s2[2]) \div E[q].s2[1] ELSE OrderM(E[q])
ChainRateP(q) ==  IF "RateOfFirstSlot" \in Dev THEN RateM(E[CHOOSE p \in 1..Len(E) : E[p].s = E[q].s /\ \A p2 \in 1..Len(E) : E[p2].s = E[q].s => p <= p2])
                  ELSE RateM(E[q])
(* refinement: sharing a chain is unobservable because members have identical (order, rate, source); with the
   deviations the slot's kernel differs from the edge's own *)
EachEdgeOwnKernel == \A q \in 1..Len(E) : E[q].d # 0 => ChainOrderP(q) = OrderM(E[q]) /\ ChainRateP(q) = RateM(E[q])
MeanDelayIsD == \A q \in 1..Len(E) : E[q].d # 0 => OrderM(E[q]) = RateM(E[q]) * E[q].d        \* n / rate = d
UnitGain == \A q \in 1..Len(E) : OrderM(E[q]) >= 0           \* every stage z' = r (in - z) has steady state z = in
Integral == \A q \in 1..Len(E) : RateIntegral(E[q])
Done == i = cs.cfg.steps
(* classes with recorded loud findings: D36 (no vectorisation, two delayed edges between the same pair of variables) and
   D50 (vectorisation, a source node that is alone in its kind and feeds two or more delayed edges) *)
ClassD36 == ~cs.cfg.vec /\ \E p, q \in 1..Len(E) : p < q /\ E[p].s = E[q].s /\ E[p].t = E[q].t /\ E[p].d > 0 /\ E[q].d > 0
ClassD50 == cs.cfg.vec /\ \E p, q \in 1..Len(E) : p < q /\ E[p].s = E[q].s /\ E[p].d > 0 /\ E[q].d > 0
                          /\ \A n \in Nodes : n # E[p].s => M.kind[n] # M.kind[E[p].s]
(* D59: a source variable (after vectorisation: every node of the kind) that feeds both a distributed-delay edge and a plain
   discrete-delay edge - the discrete delay is dropped, the edge lost, or KeyError('spread'), depending on order and
   vectorisation; D06 (C09): an undelayed edge next to a discrete-delay edge of the same source variable *)
SameSrcVar(p, q) == IF cs.cfg.vec THEN M.kind[E[p].s] = M.kind[E[q].s] ELSE E[p].s = E[q].s
ClassD59 == \E p, q \in 1..Len(E) : p # q /\ SameSrcVar(p, q) /\ IsDiscrete(E[p]) /\ E[q].d > 0 /\ ~IsDiscrete(E[q])
ClassD06 == \E p, q \in 1..Len(E) : p # q /\ SameSrcVar(p, q) /\ IsDiscrete(E[p]) /\ E[q].d = 0
(* layer P: _add_edge_buffer takes ONE branch (kernel chains or ring buffer) per source variable *)
GroupHasKernel(q) == \E p \in 1..Len(E) : SameSrcVar(p, q) /\ E[p].d > 0 /\ ~IsDiscrete(E[p])
BranchP(q) == IF "OneBranchPerSourceVariable" \in Dev /\ GroupHasKernel(q) THEN "ode" ELSE (IF IsDiscrete(E[q]) THEN "ring" ELSE "ode")
DiscreteKeepsItsDelay == \A q \in 1..Len(E) : IsDiscrete(E[q]) => BranchP(q) = "ring"
HasDiscrete == \E q \in 1..Len(E) : IsDiscrete(E[q])
Export == Done => PrintT(<<"CASE", ToJson([m |-> M, cfg |-> cs.cfg, rows |-> rec, d36 |-> ClassD36, d50 |-> ClassD50, d59 |-> ClassD59,
                                            d06 |-> ClassD06, discrete |-> HasDiscrete,
                                            orders |-> [q \in 1..Len(E) |-> OrderM(E[q])], rates |-> [q \in 1..Len(E) |-> RateM(E[q])]])>>)

(* ----------------------------- case generators ----------------------------- *)
Ed(s, t, w, d, s2) == [s |-> s, t |-> t, w |-> w, d |-> d, s2 |-> s2]
(* (d, spread^2) with d >= 2 steps (a delay of one step or less is neglected by design) and integer rate n/d:
     1: (2, 1)       n = 4, r = 2      2: (2, 49/25)  n = 2, r = 1      3: (4, 4)   n = 4, r = 1 (same order as 1, other rate)
     4: (3, 1)       n = 9, r = 3      5: (2, 16/25)  n = 6, r = 3      6: (2, 9/4) n = 2 (1.78 rounds up), r = 1
     7: (4, 2)       n = 8, r = 2      8: (3, 3)      n = 3, r = 1      9: no delay
    10: (2, 361/400) n = 4 (4.43), r = 2 - same kernel as 1 from another spread      11: (6, 6) n = 6, r = 1
    12: (2, none) and 13: (3, none): plain discrete delays of 2 and 3 steps (no kernel) *)
Kernels == << <<2, <<1, 1>>>>, <<2, <<49, 25>>>>, <<4, <<4, 1>>>>, <<3, <<1, 1>>>>, <<2, <<16, 25>>>>, <<2, <<9, 4>>>>, <<4, <<2, 1>>>>, <<3, <<3, 1>>>>,
             <<0, <<0, 1>>>>, <<2, <<361, 400>>>>, <<6, <<6, 1>>>>, <<2, <<0, 1>>>>, <<3, <<0, 1>>>> >>
WeightAt(q) == <<2, 6, -4>>[q]
Net(kinds, el) == [n |-> 4, c |-> <<2, 0, 0, 0>>, a |-> <<0, 1, 0, -1>>, x0 |-> <<0, 1, 0, 7>>, kind |-> kinds,
                   edges |-> [q \in 1..Len(el) |-> Ed(el[q][1], el[q][2], WeightAt(q), Kernels[el[q][3]][1], Kernels[el[q][3]][2])]]
EdgeLists(len, ks) == UNION { [1..l -> ({1, 2} \X {3, 4} \X ks)] : l \in 1..len }
GCfg(steps, vec, approx, form) == [steps |-> steps, vec |-> vec, approx |-> approx, form |-> form]
GammaCases(len, ks, kindsets, steps) ==
  { [m |-> Net(kn, el), cfg |-> GCfg(steps, ve, 0, "nodes")] : el \in EdgeLists(len, ks), kn \in kindsets, ve \in BOOLEAN }
(* dde_approx = n without spread: kernels given by the option; delays 2 and 4 with n = 4 -> rates 2 and 1 *)
ApproxCases(steps) ==
  { [m |-> [Net(<<1, 1, 2, 2>>, el) EXCEPT !.edges = [q \in 1..Len(el) |-> Ed(el[q][1], el[q][2], WeightAt(q), el[q][3], <<0, 1>>)]],
     cfg |-> GCfg(steps, ve, 4, "nodes")] : el \in UNION { [1..l -> ({1, 2} \X {3, 4} \X {2, 4})] : l \in 1..2 }, ve \in BOOLEAN }
=============================================================================
