------------------------------ MODULE GridCases ------------------------------
EXTENDS Integers, Sequences, FiniteSets
(* keys: kind 1 = rate a of node 1, 2 = constant c of all nodes, 3 = weight of edge 1, 4 = rate a of nodes 1 and 2,
   5 = delay of edge 1 (|value| steps; model 3 = model 1 with a delayed first edge): <<3, 5>> updates two attributes of one edge,
   6 = rate a of node 2 (model 4: three identical nodes built from ONE NodeTemplate object): <<1, 6>> gives two nodes that share
   a template different values in one row *)
KeySets == {<<1>>, <<3>>, <<2>>, <<1, 3>>, <<4, 3>>, <<2, 1>>}
ValLists(n) == IF n = 2 THEN {<<-2, -4>>, <<2, 6>>} ELSE {<<-2, -4, -6>>, <<2, 6, 4>>}
Perm3 == {<<2, 0, 1>>, <<1, 2, 0>>}
GridCases(models) ==
  \* pairwise dict grids
  { [vals |-> [k \in 1..Len(ks) |-> v], permute |-> FALSE, index |-> <<>>, keys |-> ks, model |-> m, vec |-> ve, inp |-> ip] :
      ks \in KeySets, v \in ValLists(3), m \in models, ve \in BOOLEAN, ip \in BOOLEAN }
  \cup \* permuted grids (two keys, 2 x 3 values)
  { [vals |-> <<v2, v3>>, permute |-> TRUE, index |-> <<>>, keys |-> ks, model |-> m, vec |-> ve, inp |-> FALSE] :
      ks \in {k \in KeySets : Len(k) = 2}, v2 \in ValLists(2), v3 \in ValLists(3), m \in models, ve \in BOOLEAN }
  \cup \* tables with re-ordered integer row labels
  { [vals |-> [k \in 1..Len(ks) |-> v], permute |-> FALSE, index |-> ix, keys |-> ks, model |-> m, vec |-> TRUE, inp |-> FALSE] :
      ks \in KeySets, v \in ValLists(3), ix \in Perm3, m \in models }
SharedTemplateCases ==
  { [vals |-> <<v1, v2>>, permute |-> pm, index |-> <<>>, keys |-> ks, model |-> 4, vec |-> ve, inp |-> FALSE] :
      ks \in {<<1, 6>>, <<6, 1>>, <<6, 4>>}, v1 \in {<<-2, -4, -6>>}, v2 \in {<<-8, -10, -12>>}, pm \in {FALSE}, ve \in BOOLEAN }
(* delays swept under dde_approx: the rows' gamma chains (rate = order / delay) must not be merged *)
ApproxDelayCases ==
  { [vals |-> <<v>>, permute |-> FALSE, index |-> <<>>, keys |-> <<5>>, model |-> 3, vec |-> ve, inp |-> FALSE, approx |-> 2] :
      v \in {<<20, 21, 22>>, <<21, 20, 40>>}, ve \in BOOLEAN }
EdgeAttrCases ==
  { [vals |-> [k \in 1..Len(ks) |-> v], permute |-> FALSE, index |-> <<>>, keys |-> ks, model |-> 3, vec |-> ve, inp |-> FALSE] :
      ks \in {<<5>>, <<3, 5>>, <<5, 3>>}, v \in ValLists(3), ve \in BOOLEAN }
  \cup { [vals |-> <<v2, v3>>, permute |-> TRUE, index |-> <<>>, keys |-> ks, model |-> 3, vec |-> ve, inp |-> FALSE] :
      ks \in {<<3, 5>>}, v2 \in ValLists(2), v3 \in ValLists(3), ve \in BOOLEAN }
=============================================================================
