------------------------------ MODULE ExprCases ------------------------------
(* C05: every tree of the enumerated family, rendered in every style (and with commuted operands), must denote the
   value Eval gives it.  TLC checks SpellingIndependent on the model side (rendering is injective enough that the
   harness re-parses it: the value exported with each string is the oracle) and CommuteInvariant. *)
EXTENDS Expr, Json

CONSTANTS Trees
VARIABLES tree, pc
vars == <<tree, pc>>

Env == [n \in {"a", "b", "c", "d", "e", "f"} |-> CASE n = "a" -> Q(3) [] n = "b" -> Q(-2) [] n = "c" -> <<1, 2>>
                                                 [] n = "d" -> Q(2) [] n = "e" -> Q(3) [] n = "f" -> <<1, 3>>]
RECURSIVE Commuted(_)
Commuted(t) == CASE t.k \in {"var", "lit", "past"} -> t
                 [] t.k \in {"neg", "call"} -> [t EXCEPT !.a = <<Commuted(t.a[1])>>]
                 [] t.k \in {"add", "mul"} -> [t EXCEPT !.a = <<Commuted(t.b[1])>>, !.b = <<Commuted(t.a[1])>>]
                 [] OTHER -> [t EXCEPT !.a = <<Commuted(t.a[1])>>, !.b = <<Commuted(t.b[1])>>]
Init == tree \in Trees /\ pc = "tree"
Next == pc = "tree" /\ pc' = "done" /\ UNCHANGED tree
Spec == Init /\ [][Next]_vars

CommuteInvariant == Evaluable(tree, Env) => Eval(Commuted(tree), Env) = Eval(tree, Env)
NegTwice == Evaluable(tree, Env) => Eval(Neg(Neg(tree)), Env) = Eval(tree, Env)
StyleSeq == << [pow |-> "^", sp |-> TRUE, par |-> FALSE], [pow |-> "**", sp |-> FALSE, par |-> FALSE],
               [pow |-> "^", sp |-> FALSE, par |-> TRUE], [pow |-> "**", sp |-> TRUE, par |-> TRUE] >>
Export == (pc = "done" /\ Evaluable(tree, Env)) =>
   PrintT(<<"EXPR", ToJson([strs |-> [q \in 1..4 |-> Render(tree, StyleSeq[q])],
                            cstrs |-> [q \in 1..2 |-> Render(Commuted(tree), StyleSeq[q])],
                            val |-> Eval(tree, Env), tree |-> tree])>>)

LeafS == {V("a"), V("b"), L(2), L(-1)}
LeafAll == LeafS \cup {V("c"), L(3)}
D1(ls) == { Bin(o, x, y) : o \in {"add", "sub", "mul", "div"}, x \in ls, y \in ls }
          \cup { Bin("pow", x, L(n)) : x \in ls, n \in {2, 3} } \cup { Neg(x) : x \in ls }
D2 == { Bin(o, x, y) : o \in {"add", "sub", "mul", "div"}, x \in D1(LeafS), y \in LeafS \cup D1(LeafS) }
      \cup { Bin(o, x, y) : o \in {"sub", "div", "mul"}, x \in LeafS, y \in D1(LeafS) }
      \cup { Bin("pow", x, L(2)) : x \in D1(LeafS) } \cup { Neg(x) : x \in D1(LeafS) }
(* a repeated sub-expression *)
Rep == { Bin("mul", x, x) : x \in D1(LeafS) } \cup { Bin("sub", Bin("mul", x, V("c")), x) : x \in D1(LeafS) }
Calls == { Call(f, x) : f \in {"sin", "cos", "tanh", "exp", "sigmoid"}, x \in LeafS \cup D1({V("a"), V("b"), L(2)}) }
(* non-commutative operations with two compound operands of different textual length (exponents evaluate to 1 or 2) *)
Sum2 == Bin("add", V("d"), V("e"))                                                  \* 5
Sum4 == Bin("add", Bin("add", Bin("add", V("a"), V("b")), V("d")), V("e"))          \* 6
Prod2 == Bin("mul", V("e"), V("f"))                                                 \* 1
Prod4 == Bin("mul", Bin("mul", Bin("mul", V("c"), V("d")), V("e")), V("f"))         \* 1
PowTrees == { Bin("pow", x, y) : x \in {Sum2, Sum4}, y \in {Prod2, Prod4} }
            \cup { Bin("sub", x, y) : x \in {Sum2, Sum4, Prod2, Prod4}, y \in {Sum2, Sum4, Prod2, Prod4} }
            \cup { Bin("div", x, y) : x \in {Sum2, Sum4, Prod4}, y \in {Prod2, Prod4} }
=============================================================================
