----------------------------- MODULE TraceSolver -----------------------------
(* Trace validation for C03 / C09 / C10 (code -> spec): every call of the generated right-hand side during a real
   CircuitTemplate.run is logged through the public `decorator=` keyword (time, state passed in, slope returned;
   projected on the nodes and rescaled to dt = 1), followed by the rows run() returned.  The log must be a behaviour
   of Solver.tla's layer P: Store and Adv are the unlogged steps between calls; Rhs1 / Rhs2 must be enabled with
   exactly the logged time and state and must produce exactly the logged slope; the returned rows must be the
   recorded rows at or after the cutoff.  Many traces per TLC run: one initial state per trace id. *)
EXTENDS Solver, IOUtils, TLCExt

Traces == JsonDeserialize(IOEnv.TRACE_FILE)     \* <<[tid, case, events], ...>>

VARIABLES tid, l
tvars == <<vars, tid, l>>

Evs == Traces[tid].events
Pending == l <= Len(Evs)
Ev == Evs[l]

TInit == /\ tid \in 1..Len(Traces)
         /\ l = 1
         /\ InitCase(Traces[tid].case)

Silent == (Store \/ Adv) /\ UNCHANGED <<tid, l>>      \* deterministic, enabled only between calls

TRhs1 == /\ Pending /\ Ev.ev = "rhs" /\ pc = "rhs1"
         /\ Ev.t = i /\ Ev.y = y                    \* the call receives the step counter i and the current iterate
         /\ Rhs1
         /\ k1' = Ev.dy                             \* and returns the slope the model computes (buffers, inputs, history)
         /\ l' = l + 1 /\ UNCHANGED tid

TRhs2 == /\ Pending /\ Ev.ev = "rhs" /\ pc = "rhs2"
         /\ Ev.t = i /\ Ev.y = y0p                  \* Heun corrector: same step counter (time-dependent terms frozen), Euler predictor
         /\ Rhs2
         /\ k2' = Ev.dy
         /\ l' = l + 1 /\ UNCHANGED tid

KeptRows == LET idx == SelectSeq([r \in 1..Len(rec) |-> r], Keep) IN [q \in 1..Len(idx) |-> rec[idx[q]]]
TRows == /\ Pending /\ Ev.ev = "rows" /\ pc = "done"
         /\ Ev.rows = KeptRows
         /\ Ev.index = [q \in 1..Len(KeptRows) |-> (SelectSeq([r \in 1..Len(rec) |-> r], Keep)[q] - 1) * C.store]
         /\ l' = l + 1 /\ UNCHANGED <<vars, tid>>

TNext == TRhs1 \/ TRhs2 \/ TRows \/ (Pending /\ Silent)
TSpec == TInit /\ [][TNext]_tvars

Accept == (~Pending) => PrintT(<<"ACCEPT", Traces[tid].tid>>)
Stuck  == (Pending /\ ~ENABLED TNext) => PrintT(<<"REJECT", Traces[tid].tid, l, pc, i>>)
=============================================================================
