------------------------------ MODULE TraceAuto ------------------------------
(* Trace validation for C18: every record is the set of artefacts parsed from the files PyRates wrote for one
   exported model (<file>.f90, c.<scenario>) plus what the f2py-compiled FUNC / STPNT returned.  The C18 predicates
   of Auto.tla are evaluated on each record; the verdict (set of violated predicates) is printed per record. *)
EXTENDS Auto, IOUtils, TLCExt

Arts == JsonDeserialize(IOEnv.TRACE_FILE)
AllPreds == Preds \o <<"NdimMatches", "FieldIsModelField", "StpntStateIsInitialState">>

VARIABLE tid
TInit == /\ tid \in 1..Len(Arts)
         /\ pc = "done" /\ n = 0 /\ i = 0 /\ inc = 1 /\ out = <<>>
         /\ art = Arts[tid].art /\ prog = NoProg
TNext == FALSE /\ UNCHANGED <<vars, tid>>
SetToSeq(S) == LET RECURSIVE F(_)
                   F(T) == IF T = {} THEN <<>> ELSE LET x == CHOOSE x \in T : TRUE IN <<x>> \o F(T \ {x})
               IN F(S)
Verdict == PrintT(<<"VERDICT", ToJson([tid |-> Arts[tid].tid, violated |-> SetToSeq(Violated(art, AllPreds))])>>)
=============================================================================
