--------------------------- MODULE TraceDDEHistory ---------------------------
(* Trace validation for C19: logs recorded from the real DDEHistory class (random drivers, and the
   solver loops of real DDE runs) are replayed against the actions of DDEHistory.tla.  Many traces per
   TLC run: one initial state per trace id. *)
EXTENDS DDEHistory, IOUtils, TLCExt

Traces == JsonDeserialize(IOEnv.TRACE_FILE)     \* <<[tid, t0, y0, events], ...>>

VARIABLES tid, l
tvars == <<vars, tid, l>>

Evs == Traces[tid].events
Pending == l <= Len(Evs)
Ev == Evs[l]

TInit == /\ tid \in 1..Len(Traces)
         /\ l = 1
         /\ InitWith(Traces[tid].t0, Traces[tid].y0)

TUpdate == /\ Pending /\ Ev.ev = "update"
           /\ UpdateTo(Ev.t, Ev.y)
           /\ status' = Ev.status                    \* logged outcome: "ok" | "refused"
           /\ l' = l + 1 /\ UNCHANGED tid

TMutate == /\ Pending /\ Ev.ev = "mutate"
           /\ MutateCaller
           /\ l' = l + 1 /\ UNCHANGED tid

TQuery == /\ Pending /\ Ev.ev = "query"
          /\ EqQV(QueryM(Ev.t), Ev.r)                \* the property: the answer is the interpolant
          /\ EqQV(QueryP(Ev.t), Ev.r)                \* and the implementation model agrees
          /\ l' = l + 1 /\ UNCHANGED <<vars, tid>>

TNext == TUpdate \/ TMutate \/ TQuery

(* on long traces evaluating every query point at every step is quadratic; knots suffice here, the
   logged queries are checked by TQuery *)
QueryCorrectAtKnots == \A j \in {1, Len(recT)} : EqQV(QueryP(recT[j]), Q1(recY[j]))

Accept == (~Pending) => PrintT(<<"ACCEPT", Traces[tid].tid>>)
Stuck  == (Pending /\ ~ENABLED TNext) => PrintT(<<"REJECT", Traces[tid].tid, l>>)
=============================================================================
