------------------------------ MODULE PathsCases ------------------------------
EXTENDS Integers, Sequences, FiniteSets

PStr(n) == CASE n = 0 -> "0" [] n = 1 -> "1" [] n = 2 -> "2" [] n = 3 -> "3" [] n = 4 -> "4" [] n = 5 -> "5" [] n = 6 -> "6"
PPath(n, h) == IF h = 0 THEN <<"n" \o PStr(n)>>
               ELSE IF h = 1 THEN <<"c" \o PStr(n % 2), "n" \o PStr(n)>>
               ELSE <<"top" \o PStr(n % 2), "c0", "n" \o PStr(n)>>
Masked(path, mask) == [l \in 1..Len(path) |-> IF l \in mask THEN "all" ELSE path[l]]
Patterns(nn, h) == { Masked(PPath(n, h), mask) : n \in 1..nn, mask \in SUBSET (1..(h + 1)) } \cup {<<"all">>}
Orders(nn) == { [i \in 1..nn |-> i], [i \in 1..nn |-> nn + 1 - i], [i \in 1..nn |-> (i % nn) + 1] }
Req(form, pats, var) == [form |-> form, pats |-> pats, var |-> var]
Requests(nn, h) ==
  { Req(f, <<p>>, v) : f \in {"dict", "list"}, p \in Patterns(nn, h), v \in {"x", "q"} }
  \cup { Req("dict", <<p1, p2>>, "x") : p1 \in { Masked(PPath(n, h), {}) : n \in 1..nn }, p2 \in { Masked(PPath(n, h), {}) : n \in 1..nn } }
  \cup { Req("list", <<p1, p2>>, "x") : p1 \in { Masked(PPath(n, h), {}) : n \in {1} }, p2 \in Patterns(nn, h) }
PathCases(sizes, hiers) ==
  UNION { { [kinds |-> ks, order |-> o, hier |-> h, vec |-> ve, req |-> r] :
              ks \in [1..nn -> {"L", "S"}], o \in Orders(nn), h \in hiers, ve \in BOOLEAN, r \in UNION { Requests(nn, hh) : hh \in hiers } }
          : nn \in sizes }
(* (N,n) inputs: one wildcard pattern, vectorised, nodes of two kinds that share the target operator, interleaved *)
InputCases(sizes, hiers) ==
  UNION { UNION { { [kinds |-> ks, order |-> o, hier |-> h, vec |-> TRUE, req |-> Req("input", <<p>>, "x")] :
                      ks \in [1..nn -> {"L", "S"}], o \in Orders(nn), p \in Patterns(nn, h) }
                  : h \in hiers }
          : nn \in sizes }
WellFormedCase(c) == \A i \in 1..Len(c.req.pats) : c.req.pats[i] = <<"all">> \/ Len(c.req.pats[i]) = c.hier + 1
=============================================================================
