---------------------------- MODULE AutoLoopInd ----------------------------
(* The PAR-slot loop of Auto.tla (pyrates fortran backend, _auto_param_indices) without the output sequence: only the
   slot handed to the latest parameter is kept.  Apalache discharges the inductive invariant IndInv for EVERY number
   of parameters (TLC checks Auto.tla for n <= 40 only):
       apalache-mc check --init=IndInit --inv=IndInv --length=1 AutoLoopInd.tla     (consecution)
       apalache-mc check --init=Init    --inv=IndInv --length=0 AutoLoopInd.tla     (initiation)
       apalache-mc check --init=IndInit --inv=Safe   --length=0 AutoLoopInd.tla     (IndInv => Safe)
       apalache-mc check --init=IndInit --inv=Mono   --length=1 AutoLoopInd.tla     (slots strictly increase)      *)
EXTENDS Integers

B0 == 10
B1 == 15
D == B1 - B0

VARIABLES
  \* @type: Int;
  i,      \* parameters handled so far
  \* @type: Int;
  inc,    \* current offset
  \* @type: Int;
  last,   \* slot of the latest parameter (0: none yet)
  \* @type: Int;
  prev    \* slot of the parameter before it

Init == i = 0 /\ inc = 1 /\ last = 0 /\ prev = 0

Next ==
  LET idx == i + inc IN
  /\ IF B0 <= idx /\ idx <= B1
     THEN /\ inc' = inc + D
          /\ last' = (idx - inc) + (inc + D)
     ELSE /\ inc' = inc
          /\ last' = idx
  /\ prev' = last
  /\ i' = i + 1

IndInv ==
  /\ i >= 0
  /\ inc \in {1, 1 + D}
  /\ (inc = 1 => i < B0)                  \* the blocked range has not been reached
  /\ (inc = 1 + D => i >= B0)             \* ... or has been jumped over, once and for all
  /\ last = (IF i = 0 THEN 0 ELSE (i - 1) + inc)

\* @type: () => Bool;
IndInit == /\ i \in Int /\ inc \in Int /\ last \in Int /\ prev \in Int /\ IndInv

Safe == i > 0 => (last >= 1 /\ ~(B0 <= last /\ last < B1) /\ ~(11 <= last /\ last <= 14))
Mono == i > 1 => last > prev
MonoInv == IndInv /\ (i > 0 => prev < last) /\ prev >= 0
MonoInit == /\ i \in Int /\ inc \in Int /\ last \in Int /\ prev \in Int /\ MonoInv
=============================================================================
