----------------------------- MODULE SolverCases -----------------------------
(* Case generators for Solver.tla: the bounded families of models and configurations that TLC
   enumerates for C03 (time axis / storage cadence / cutoff / Euler / Heun), C08 (extrinsic inputs)
   and C09 (discrete edge delays).  All coefficients are even so that Heun iterates stay integral. *)
EXTENDS Integers, Sequences, FiniteSets

NoSd(n) == [i \in 1..n |-> [k |-> 0, lag |-> 0]]
Mk(c, a, x0, ext, kind, edges) == [n |-> Len(c), c |-> c, a |-> a, x0 |-> x0, ext |-> ext, kind |-> kind, edges |-> edges, sd |-> NoSd(Len(c))]
MkD(c, a, x0, kind, edges, sd) == [n |-> Len(c), c |-> c, a |-> a, x0 |-> x0, ext |-> [i \in 1..Len(c) |-> <<>>], kind |-> kind, edges |-> edges, sd |-> sd]
Ed(s, t, w, lag) == [s |-> s, t |-> t, w |-> w, lag |-> lag]
Cfg(steps, store, cut, solver, vec) == [steps |-> steps, store |-> store, cut |-> cut, solver |-> solver, vec |-> vec, form |-> "nodes"]
CfgPop(steps, store, cut, solver) == [steps |-> steps, store |-> store, cut |-> cut, solver |-> solver, vec |-> TRUE, form |-> "pop"]

Pow2(k) == LET RECURSIVE F(_)
               F(j) == IF j = 0 THEN 1 ELSE 2 * F(j - 1)
           IN F(k)
Pows(len) == [k \in 1..len |-> 2 * Pow2(k - 1)]                 \* 2, 4, 8, ...  every misalignment changes every row
Sq(len) == [k \in 1..len |-> 2 * (k - 1) * (k - 1) + 2]

(* ---- C03: models ---- *)
MGrow   == Mk(<<0>>, <<2>>, <<1>>, <<<<>>>>, <<1>>, <<>>)                                   \* x' = 2x
MPair   == Mk(<<2, 0>>, <<0, -2>>, <<1, 3>>, <<<<>>, <<>>>>, <<1, 1>>, <<Ed(2, 1, 2, 0), Ed(1, 2, 4, 0)>>)
MInput  == Mk(<<0, 2>>, <<0, 0>>, <<0, 5>>, <<Pows(12), <<>>>>, <<1, 1>>, <<Ed(1, 2, 2, 0)>>)    \* time-dependent term
MDelay  == Mk(<<2, 0>>, <<0, 0>>, <<0, 1>>, <<<<>>, <<>>>>, <<1, 2>>, <<Ed(1, 2, 2, 2)>>)         \* ramp -> delayed integrator
C03Models == {MGrow, MPair, MInput, MDelay}

C03Cfgs(maxSteps, maxStore) ==
  { Cfg(st, so, cu, sv, ve) : st \in 1..maxSteps, so \in 1..maxStore, cu \in 0..(maxSteps + 1),
                              sv \in {"euler", "heun"}, ve \in BOOLEAN }
C03Cases(maxSteps, maxStore) ==
  { [m |-> m, cfg |-> c] : m \in C03Models, c \in { c \in C03Cfgs(maxSteps, maxStore) :
        c.steps % c.store = 0 /\ c.cut <= c.steps + 1
        /\ c.steps >= 2 * c.store } }     \* single-row results: known finding D34 (pinned), excluded here

(* adaptive solvers: polynomial chain  x1' = 2,  x2' = -4 + 2*x1  with exact integer solution at integer times *)
MChain == Mk(<<2, -4>>, <<0, 0>>, <<1, 3>>, <<<<>>, <<>>>>, <<1, 2>>, <<Ed(1, 2, 2, 0)>>)
C03AdaptiveCases(maxSteps, maxStore) ==
  { [m |-> MChain, cfg |-> Cfg(st, so, cu, "scipy", ve)] : st \in 1..maxSteps, so \in {s \in 1..maxStore : TRUE},
                                                         cu \in {0, 1, 3}, ve \in BOOLEAN } \cap
  { cs \in [m : {MChain}, cfg : [steps : 1..maxSteps, store : 1..maxStore, cut : {0, 1, 3}, solver : {"scipy"}, vec : BOOLEAN, form : {"nodes"}]] :
        cs.cfg.steps % cs.cfg.store = 0 /\ cs.cfg.steps >= 2 * cs.cfg.store }

(* adaptive solver with a delayed edge (the edge becomes a past() term): x1' = 2, x2' = -4 + 2*x1(t - lag), exact at integer times *)
MChainD(lag) == Mk(<<2, -4>>, <<0, 0>>, <<1, 3>>, <<<<>>, <<>>>>, <<1, 2>>, <<Ed(1, 2, 2, lag)>>)
C10AdaptiveEdgeCases(maxSteps) ==
  { [m |-> MChainD(l), cfg |-> Cfg(st, 1, 0, "scipy", ve)] : l \in {2, 3, 4}, st \in {4, maxSteps}, ve \in BOOLEAN }      \* a delay of one step is neglected by design

(* ---- C09: all edge lists of bounded length over two sources and two targets ---- *)
(* nodes: 1 = ramp source (x' = 2), 2 = exponential source (x' = 2x? no: x' = 2 + 0x with x0 = 1 gives odd values;
   we use x' = 2x, x0 = 1: 1, 3, 9, ... under Euler), 3 and 4 = pure integrators (targets).  kind: sources share a
   kind, targets share another, so that vectorisation merges each pair into one vector variable. *)
C09Nodes(kinds) == [c |-> <<2, 0, 0, 0>>, a |-> <<0, 2, 0, 0>>, x0 |-> <<0, 1, 0, 7>>, kind |-> kinds]
WeightAt(q) == <<2, 6, -4, 10>>[q]                           \* distinct weight per edge position
EdgeLists(len, lags, srcs, tgts) ==
  UNION { [1..l -> (srcs \X tgts \X lags)] : l \in 1..len }
C09Model(el, kinds) ==
  LET nd == C09Nodes(kinds) IN
  Mk(nd.c, nd.a, nd.x0, <<<<>>, <<>>, <<>>, <<>>>>, nd.kind,
     [q \in 1..Len(el) |-> Ed(el[q][1], el[q][2], WeightAt(q), el[q][3])])
(* known finding D36 (pinned in the harness): without vectorisation two delayed edges between the same pair of
   variables fail loudly; that class is kept out of the enumeration *)
ParallelDelayed(el) ==
  \/ \E p, q \in 1..Len(el) : p < q /\ el[p][1] = el[q][1] /\ el[p][2] = el[q][2] /\ el[p][3] > 0 /\ el[q][3] > 0
  \* ... or two undelayed edges of one pair that ride on the ring buffer of a delayed sibling of the same source (D06 + D36)
  \/ \E p, q, r \in 1..Len(el) : p < q /\ el[p][1] = el[q][1] /\ el[p][2] = el[q][2] /\ el[p][3] = 0 /\ el[q][3] = 0
                                  /\ el[r][1] = el[p][1] /\ el[r][3] > 1
C09Cases(len, lags, steps, solvers, kindsets) ==
  { cs \in { [m |-> C09Model(el, ks), cfg |-> Cfg(steps, 1, 0, sv, ve)] :
               el \in { el \in EdgeLists(len, lags, {1, 2}, {3, 4}) : ~ParallelDelayed(el) },
               ks \in kindsets, sv \in solvers, ve \in {TRUE} } : TRUE }
  \cup { [m |-> C09Model(el, ks), cfg |-> Cfg(steps, 1, 0, sv, FALSE)] :
               el \in { el \in EdgeLists(len, lags, {1, 2}, {3, 4}) : ~ParallelDelayed(el) },
               ks \in kindsets, sv \in solvers }
  \cup { [m |-> C09Model(el, ks), cfg |-> Cfg(steps, 1, 0, sv, TRUE)] :
               el \in { el \in EdgeLists(len, lags, {1, 2}, {3, 4}) : ParallelDelayed(el) },
               ks \in kindsets, sv \in solvers }

(* Population / Connectivity form of the same models (one population per kind, one Connectivity per
   (source population, target population, lag)).  Supported class: every pair of populations is connected with a
   single lag (several Connectivity objects between one pair of variables, or several matrix delays on one source
   variable, are known findings D37 / D38) and target populations have >= 2 units (D27). *)
PopOK(el, ks) == \A p, q \in 1..Len(el) : (ks[el[p][1]] = ks[el[q][1]]) => el[p][3] = el[q][3]
C09PopCases(len, lags, steps, solvers, kindsets) ==
  { [m |-> C09Model(el, ks), cfg |-> CfgPop(steps, 1, 0, sv)] :
        el \in EdgeLists(len, lags, {1, 2}, {3, 4}), ks \in kindsets, sv \in solvers } \cap
  { cs \in [m : { C09Model(el, ks) : el \in EdgeLists(len, lags, {1, 2}, {3, 4}), ks \in kindsets },
            cfg : { CfgPop(steps, 1, 0, sv) : sv \in solvers }] :
        \A p, q \in 1..Len(cs.m.edges) : (cs.m.kind[cs.m.edges[p].s] = cs.m.kind[cs.m.edges[q].s])
                                            => cs.m.edges[p].lag = cs.m.edges[q].lag }

(* three delayed edge groups leaving one (vectorised) source variable towards three target node kinds *)
C09ThreeTargetCases(steps, solvers) ==
  { [m |-> Mk(<<2, 0, 0, 0, 0>>, <<0, 2, 0, 0, 0>>, <<0, 1, 0, 7, 3>>, <<<<>>, <<>>, <<>>, <<>>, <<>>>>, <<1, 1, 2, 3, 4>>,
             <<Ed(1, 3, 2, l[1]), Ed(2, 3, 6, l[2]), Ed(1, 4, 0 - 4, l[3]), Ed(2, 5, 10, l[4])>>),
     cfg |-> Cfg(steps, 1, 0, sv, ve)] :
        l \in {<<2, 3, 4, 2>>, <<3, 2, 2, 4>>, <<2, 2, 3, 4>>, <<4, 3, 2, 3>>}, sv \in solvers, ve \in BOOLEAN }

(* an undelayed *global* (scalar-weight) Connectivity whose source variable also feeds a delayed matrix Connectivity:
   populations p1 = {1, 2} (sources), p2 = {3, 4}, p3 = {5, 6} *)
C09PopGlobalCases(lags, steps) ==
  { [m |-> Mk(<<2, 0, 0, 0, 0, 0>>, <<0, 2, 0, 0, 0, 0>>, <<0, 1, 0, 7, 3, 5>>, <<<<>>, <<>>, <<>>, <<>>, <<>>, <<>>>>, <<1, 1, 2, 2, 3, 3>>,
             <<Ed(1, 3, 2, l), Ed(2, 3, 6, l), Ed(1, 4, 0 - 4, l), Ed(2, 4, 10, l),
               Ed(1, 5, g, 0), Ed(2, 5, g, 0), Ed(1, 6, g, 0), Ed(2, 6, g, 0)>>),
     cfg |-> CfgPop(steps, 1, 0, "euler")] : l \in lags, g \in {3, 0 - 2} }

(* ---- C08: extrinsic inputs into integrators, alone and together with edges ---- *)
(* node 1: ramp source (kind 1); nodes 2, 3: integrators of kind 2 (merged by vectorisation), node 3 also decays.
   mode 1: input on node 2 only; mode 2: different inputs on nodes 2 and 3; mode 3: the same input on both. *)
C08Model(mode, withEdge, len) ==
  Mk(<<2, 0, 0>>, <<0, 0, -2>>, <<0, 0, 4>>,
     <<<<>>, Pows(len), IF mode = 1 THEN <<>> ELSE IF mode = 2 THEN Sq(len) ELSE Pows(len)>>, <<1, 2, 2>>,
     IF withEdge THEN <<Ed(1, 2, 2, 0), Ed(1, 3, 4, 0)>> ELSE <<>>)
C08Cases(lens, stores) ==
  { [m |-> C08Model(mo, we, st), cfg |-> Cfg(st, so, 0, sv, ve)] :
        mo \in 1..3, we \in BOOLEAN, st \in lens, so \in stores, sv \in {"euler", "heun"}, ve \in BOOLEAN } \cap
  { cs \in [m : { C08Model(mo, we, st) : mo \in 1..3, we \in BOOLEAN, st \in lens },
            cfg : { Cfg(st, so, 0, sv, ve) : st \in lens, so \in stores, sv \in {"euler", "heun"}, ve \in BOOLEAN }] :
        cs.cfg.steps = Len(cs.m.ext[2]) /\ cs.cfg.steps % cs.cfg.store = 0 /\ cs.cfg.steps >= 2 * cs.cfg.store }
(* ---- C10: delayed terms past(x, tau) read the true past (history = initial state before the start) ---- *)
Sd(k, lag) == [k |-> k, lag |-> lag]
C10Models == { MkD(<<0>>, <<0>>, <<1>>, <<5>>, <<>>, <<Sd(2, l)>>) : l \in {1, 2, 3} }                         \* x' = 2 x(t - l)
             \cup { MkD(<<2, 0>>, <<-2, 0>>, <<3, 1>>, <<5, 5>>, <<Ed(1, 2, 2, 0)>>, <<Sd(2, l1), Sd(-2, l2)>>) : l1 \in {2, 3}, l2 \in {1, 2} }
             \cup { MkD(<<2, 0>>, <<0, 0>>, <<1, 1>>, <<1, 5>>, <<Ed(1, 2, 4, 0)>>, <<Sd(0, 0), Sd(2, 2)>>) }
(* vectorised: merged nodes must share their delay (per-node delays of a merged operator: known finding D48) *)
SameLags(m) == \A i, j \in 1..m.n : (m.kind[i] = 5 /\ m.kind[j] = 5) => m.sd[i].lag = m.sd[j].lag
C10Cases(maxSteps) ==
  { cs \in [m : C10Models, cfg : { Cfg(st, so, 0, sv, ve) : st \in {6, maxSteps}, so \in {1, 2, 3}, sv \in {"euler", "heun"}, ve \in BOOLEAN }] :
        cs.cfg.steps % cs.cfg.store = 0 /\ cs.cfg.steps >= 2 * cs.cfg.store /\ (cs.cfg.vec => SameLags(cs.m)) }
(* method of steps for x' = (k/dt) x(t - 1) with dt = 1/4 (the harness scales rates by 1/dt), x = 1 on t <= 0, sampled at
   t = r/4 on [0, 2): x = 1 + k r on [0, 1], x = 1 + k r + k^2 (r - 4)^2 / 2 on [1, 2]; values doubled *)
DDEExact2(k, r) == 2 + 2 * k * r + (IF r > 4 THEN k * k * (r - 4) * (r - 4) ELSE 0)
=============================================================================
