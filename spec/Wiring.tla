------------------------------- MODULE Wiring -------------------------------
(***************************************************************************)
(* From templates to the vector field (C01, C04, C16).                     *)
(*                                                                         *)
(* A *program* is a circuit built from a small operator library:           *)
(*   lin :  x' = c + a*x + u + 10*v      inputs u, v with declared defaults*)
(*   prod:  z' = -2*z ;  u = 3*z         output named like lin's input u   *)
(*   aux :  q' = -3*q                    a second state variable           *)
(*   eop :  m_out = 3*m_in               edge template                     *)
(* node kinds (operator lists in declaration order):                       *)
(*   "L" = <<lin>>, "P" = <<prod, lin>>, "Q" = <<lin, prod>>,              *)
(*   "S" = <<lin, aux>>                                                    *)
(* and an ordered edge list; an edge goes from a state variable of a node  *)
(* to input u or v of a node, with a weight and optionally the edge        *)
(* template.                                                               *)
(*                                                                         *)
(* Layer M: Denote(prog) - the affine vector field the user wrote: for     *)
(*   each state variable its row of coefficients over all state variables  *)
(*   and its constant; an input is the SUM over the *bag* of contributions *)
(*   (same-node operator output + weight*source over all edges) or its     *)
(*   declared default when the bag is empty.                               *)
(* Layer P: the compile pipeline as the code structures it: edges grouped  *)
(*   per (source variable, target variable), one weight matrix per target  *)
(*   variable and source variable with entries *accumulated*, several      *)
(*   sources of one input combined into a sum term that replaces *that*    *)
(*   input in the equation.  Dev switches on the historic deviations.      *)
(***************************************************************************)
EXTENDS Integers, Sequences, FiniteSets, TLC, Json

CONSTANTS Progs,   \* set of programs explored
          Dev

AllDev == {"ParallelEdgeLastWins", "SourceKeyedByNode", "MultiSourceReplacesLastVar", "DefaultAddedToSum", "RefResolvesToFirstOfGroup"}

VARIABLES prog, pc, fieldP
vars == <<prog, pc, fieldP>>

(* program: [nodes : Seq([kind, c, a, du, dv]), edges : Seq([s, sv, t, tv, w, tm])] *)
Nodes == prog.nodes
Edges == prog.edges
NN == Len(Nodes)
VarsOfKind(k) == CASE k = "L" -> <<"x">> [] k = "P" -> <<"z", "x">> [] k = "Q" -> <<"x", "z">> [] k = "S" -> <<"x", "q">>
HasProd(k) == k \in {"P", "Q"}

(* state variables in declaration order: <<[n, v]>> *)
RECURSIVE SVFrom(_)
SVFrom(n) == IF n > NN THEN <<>>
             ELSE [j \in 1..Len(VarsOfKind(Nodes[n].kind)) |-> [n |-> n, v |-> VarsOfKind(Nodes[n].kind)[j]]] \o SVFrom(n + 1)
SV == SVFrom(1)
Idx(n, v) == CHOOSE i \in 1..Len(SV) : SV[i].n = n /\ SV[i].v = v
SumSeq(s) == LET RECURSIVE F(_)
                 F(j) == IF j = 0 THEN 0 ELSE s[j] + F(j - 1)
             IN F(Len(s))
Gain(e) == IF "g" \in DOMAIN e THEN e.g * e.w                \* coupling edge with an explicit gain
           ELSE IF e.tm THEN 3 * e.w ELSE e.w            \* edge template eop multiplies by 3

-----------------------------------------------------------------------------
(* Layer M *)
EdgesInto(n, tv) == {q \in 1..Len(Edges) : Edges[q].t = n /\ Edges[q].tv = tv}
HasContribution(n, tv) == EdgesInto(n, tv) # {} \/ (tv = "u" /\ HasProd(Nodes[n].kind))
IsDiff(e) == "df" \in DOMAIN e /\ e.df       \* coupling edge evaluated per (target, source) pair: w * (pre - post)
(* an edge whose template has a second input bound to a variable path: it delivers w * (source - x of node e.ref) *)
HasRef(e) == "ref" \in DOMAIN e /\ e.ref > 0
FirstOfKindW(n) == CHOOSE m \in 1..NN : Nodes[m].kind = Nodes[n].kind /\ \A m2 \in 1..NN : Nodes[m2].kind = Nodes[n].kind => m <= m2
RefP(e) == IF "RefResolvesToFirstOfGroup" \in Dev THEN FirstOfKindW(e.ref) ELSE e.ref
InputCoefM(n, tv, j) ==       \* coefficient of state variable j in input tv of node n
  SumSeq([q \in 1..Len(Edges) |-> IF q \in EdgesInto(n, tv) /\ Idx(Edges[q].s, Edges[q].sv) = j THEN Gain(Edges[q]) ELSE 0])
  - SumSeq([q \in 1..Len(Edges) |-> IF q \in EdgesInto(n, tv) /\ IsDiff(Edges[q]) /\ j = Idx(n, "x") THEN Gain(Edges[q]) ELSE 0])
  - SumSeq([q \in 1..Len(Edges) |-> IF q \in EdgesInto(n, tv) /\ HasRef(Edges[q]) /\ j = Idx(Edges[q].ref, "x") THEN Gain(Edges[q]) ELSE 0])
  + (IF tv = "u" /\ HasProd(Nodes[n].kind) /\ j = Idx(n, "z") THEN 3 ELSE 0)
InputConstM(n, tv) == IF HasContribution(n, tv) THEN 0 ELSE (IF tv = "u" THEN Nodes[n].du ELSE Nodes[n].dv)
RowM(i) ==
  LET n == SV[i].n  v == SV[i].v IN
  IF v = "z" THEN [coef |-> [j \in 1..Len(SV) |-> IF j = i THEN -2 ELSE 0], const |-> 0]
  ELSE IF v = "q" THEN [coef |-> [j \in 1..Len(SV) |-> IF j = i THEN -3 ELSE 0], const |-> 0]
  ELSE [coef |-> [j \in 1..Len(SV) |-> (IF j = i THEN Nodes[n].a ELSE 0) + InputCoefM(n, "u", j) + 10 * InputCoefM(n, "v", j)],
        const |-> Nodes[n].c + InputConstM(n, "u") + 10 * InputConstM(n, "v")]
DenoteM == [i \in 1..Len(SV) |-> RowM(i)]

-----------------------------------------------------------------------------
(* Layer P: per target variable, the incoming edges are collected per source (node, or (node, variable)), their
   weights written into a matrix entry per (target, source) pair, and the per-source terms summed *)
SourceKey(q) == IF "SourceKeyedByNode" \in Dev THEN [n |-> Edges[q].s, v |-> "*"] ELSE [n |-> Edges[q].s, v |-> Edges[q].sv]
ReadVar(q, key) ==   \* the variable the collected entry reads: with node keying, the first edge's variable of that node
  IF key.v # "*" THEN key.v
  ELSE LET qs == {p \in EdgesInto(Edges[q].t, Edges[q].tv) : Edges[p].s = key.n} IN
       Edges[CHOOSE p \in qs : \A p2 \in qs : p <= p2].sv
MatrixEntry(n, tv, key, j) ==   \* weight_mat[row, col] for source column j
  LET qs == {q \in EdgesInto(n, tv) : SourceKey(q) = key /\
                                      Idx(Edges[q].s, IF key.v = "*" THEN Edges[q].sv ELSE key.v) = j}
      col == {q \in EdgesInto(n, tv) : SourceKey(q) = key}
  IN IF "ParallelEdgeLastWins" \in Dev
     THEN (IF qs = {} THEN 0 ELSE Gain(Edges[CHOOSE q \in qs : \A q2 \in qs : q >= q2]))
     ELSE SumSeq([q \in 1..Len(Edges) |-> IF q \in qs THEN Gain(Edges[q]) ELSE 0])
InEdgeCoefP(n, tv, j) ==
  LET keys == {SourceKey(q) : q \in EdgesInto(n, tv)} IN
  IF "SourceKeyedByNode" \in Dev
  THEN \* every weight of the node's edges is applied to the variable the entry reads
       SumSeq([q \in 1..Len(Edges) |->
                 IF q \in EdgesInto(n, tv) /\ Idx(Edges[q].s, ReadVar(q, SourceKey(q))) = j THEN Gain(Edges[q]) ELSE 0])
  ELSE LET RECURSIVE Tot(_)
           Tot(S) == IF S = {} THEN 0 ELSE LET k == CHOOSE k \in S : TRUE IN MatrixEntry(n, tv, k, j) + Tot(S \ {k})
       IN Tot(keys)
(* operator-level sources of an input: the in_edge operator (if any edge) and the same-node prod operator *)
NSources(n, tv) == (IF EdgesInto(n, tv) # {} THEN 1 ELSE 0) + (IF tv = "u" /\ HasProd(Nodes[n].kind) THEN 1 ELSE 0)
InputCoefP(n, tv, j) == InEdgeCoefP(n, tv, j)
  - SumSeq([q \in 1..Len(Edges) |-> IF q \in EdgesInto(n, tv) /\ IsDiff(Edges[q]) /\ j = Idx(n, "x") THEN Gain(Edges[q]) ELSE 0])
  - SumSeq([q \in 1..Len(Edges) |-> IF q \in EdgesInto(n, tv) /\ HasRef(Edges[q]) /\ j = Idx(RefP(Edges[q]), "x") THEN Gain(Edges[q]) ELSE 0])
  + (IF tv = "u" /\ HasProd(Nodes[n].kind) /\ j = Idx(n, "z") THEN 3 ELSE 0)
InputConstP(n, tv) == IF NSources(n, tv) > 0 /\ "DefaultAddedToSum" \notin Dev THEN 0
                      ELSE (IF tv = "u" THEN Nodes[n].du ELSE Nodes[n].dv)
RowP(i) ==
  LET n == SV[i].n  v == SV[i].v IN
  IF v = "z" THEN [coef |-> [j \in 1..Len(SV) |-> IF j = i THEN -2 ELSE 0], const |-> 0]
  ELSE IF v = "q" THEN [coef |-> [j \in 1..Len(SV) |-> IF j = i THEN -3 ELSE 0], const |-> 0]
  ELSE IF "MultiSourceReplacesLastVar" \in Dev /\ NSources(n, "u") > 1
       THEN \* the sum term of u is substituted for v (the last input): x' = c + a*x + u + 10*(sum); u stays bound to
            \* its first source
            [coef |-> [j \in 1..Len(SV) |-> (IF j = i THEN Nodes[n].a ELSE 0)
                                          + (IF j = Idx(n, "z") THEN 3 ELSE 0) + 10 * InputCoefP(n, "u", j)],
             const |-> Nodes[n].c]
       ELSE [coef |-> [j \in 1..Len(SV) |-> (IF j = i THEN Nodes[n].a ELSE 0) + InputCoefP(n, "u", j) + 10 * InputCoefP(n, "v", j)],
             const |-> Nodes[n].c + InputConstP(n, "u") + 10 * InputConstP(n, "v")]

-----------------------------------------------------------------------------
Init == prog \in Progs /\ pc = "template" /\ fieldP = <<>>
Compile == /\ pc = "template" /\ pc' = "compiled"
           /\ fieldP' = [i \in 1..Len(SV) |-> RowP(i)]
           /\ UNCHANGED prog
Next == Compile
Spec == Init /\ [][Next]_vars

FieldCorrect == pc = "compiled" => fieldP = DenoteM
LayoutIsPartition == \A i, j \in 1..Len(SV) : i # j => SV[i] # SV[j]
NonTrivial == \E n \in 1..NN, tv \in {"u", "v"} : Cardinality(EdgesInto(n, tv)) + (IF tv = "u" /\ HasProd(Nodes[n].kind) THEN 1 ELSE 0) >= 2
(* classes of programs kept out of part of the conformance run because of recorded findings (pinned reproducers):
   D42 - with vectorisation, a merged node whose input receives no edge while the same input of another merged node
         (same kind) does: its non-zero declared default is lost or added on top of its same-node source;
   D43 - without vectorisation, two parallel edges that both use an edge template fail loudly. *)
UsesTemplate(e) == e.tm \/ HasRef(e)
(* D42 needs more than partial coverage: the covered members of the group receive that input from several sources
   (two source variables / kinds, or a same-node operator next to the edges) or through an edge template; with a
   single plain source the untargeted members keep their declared default (checked) *)
GroupEdges(k, tv) == {q \in 1..Len(Edges) : Nodes[Edges[q].t].kind = k /\ Edges[q].tv = tv}
SrcKeys(k, tv) == {<<Nodes[Edges[q].s].kind, Edges[q].sv>> : q \in GroupEdges(k, tv)}
ComplexInput(k, tv) == \/ (tv = "u" /\ HasProd(k))
                       \/ Cardinality(SrcKeys(k, tv)) >= 2
                       \/ \E q \in GroupEdges(k, tv) : UsesTemplate(Edges[q])
MergedDefaultMismatch ==
  \E n1, n2 \in 1..NN, tv \in {"u", "v"} : n1 # n2 /\ Nodes[n1].kind = Nodes[n2].kind
                                           /\ EdgesInto(n1, tv) # {} /\ EdgesInto(n2, tv) = {}
                                           /\ ComplexInput(Nodes[n1].kind, tv)
ParallelTemplateEdges ==
  \E p, q \in 1..Len(Edges) : p < q /\ UsesTemplate(Edges[p]) /\ UsesTemplate(Edges[q]) /\ Edges[p].s = Edges[q].s /\ Edges[p].sv = Edges[q].sv
                               /\ Edges[p].t = Edges[q].t /\ Edges[p].tv = Edges[q].tv
(* D61 - with vectorisation, two templated edges of one vectorised edge group (same source kind, same target kind and input)
         whose reference variables belong to different vectorised nodes: the group binds the reference input once *)
RefGroupMismatch ==
  \E p, q \in 1..Len(Edges) : p < q /\ HasRef(Edges[p]) /\ HasRef(Edges[q]) /\ Edges[p].tv = Edges[q].tv
                               /\ Nodes[Edges[p].s].kind = Nodes[Edges[q].s].kind /\ Nodes[Edges[p].t].kind = Nodes[Edges[q].t].kind
                               /\ Nodes[Edges[p].ref].kind # Nodes[Edges[q].ref].kind
Export == pc = "compiled" =>
            PrintT(<<"PROG", ToJson([prog |-> prog, sv |-> SV, field |-> DenoteM, nontrivial |-> NonTrivial,
                                            pop |-> IF "pop" \in DOMAIN prog THEN prog.pop ELSE <<>>,
                                            d42 |-> MergedDefaultMismatch, d43 |-> ParallelTemplateEdges, d61 |-> RefGroupMismatch])>>)
=============================================================================
