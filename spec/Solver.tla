------------------------------- MODULE Solver -------------------------------
(***************************************************************************)
(* Fixed-step simulation: CircuitTemplate.run -> BaseBackend.run ->        *)
(* _solve_euler / _solve_heun, together with the run-time side effects of  *)
(* evaluating the generated right-hand side (ring buffers of delayed       *)
(* edges are rolled *inside* the RHS call) and the extrinsic-input lookup. *)
(*                                                                         *)
(* Models are linear integer networks: node i has state x_i with           *)
(*     x_i' = c_i + a_i*x_i + u_i + ext_i(t)                               *)
(* u_i collects the incoming edges (weight w, lag in steps), ext_i is an   *)
(* extrinsic input array (one sample per step).  dt = 1 in the spec; the   *)
(* harness rescales time (dt, T, dts, delays, rates) by dyadic factors.    *)
(*                                                                         *)
(* Layer M: textbook Euler / Heun iterates of the *delayed recurrence*     *)
(*   (an edge with lag L delivers w*x_src[k-L], zero before the start),    *)
(*   rows at every `store`-th step, index k*dts, cutoff.                   *)
(* Layer P: the loop as implemented (pc: store -> rhs1 -> [rhs2] -> adv),  *)
(*   ring buffers rolled per RHS call, the delay pass that decides which   *)
(*   source variables get a buffer and which slot an edge reads.           *)
(* Dev: named deviations of P from M that exist in the code today.         *)
(***************************************************************************)
EXTENDS Integers, Sequences, FiniteSets, TLC, Json

CONSTANTS Cases,   \* set of [m |-> model, cfg |-> config] records explored
          Dev

(* model  : [n, c, a, x0 : Seq(Int); ext : Seq(Seq(Int)); kind : Seq(Nat);
             edges : Seq([s, t, w, lag])]
   config : [steps, store, cut, solver, vec]                                *)

VARIABLES case,  \* the chosen case
          pc,    \* "store" | "rhs1" | "rhs2" | "adv" | "done"
          i,     \* loop counter of _solve_*
          y,     \* P: the solver's state vector
          k1,    \* P: slope of the first RHS call of this step
          y0p,   \* P: Heun predictor
          k2,    \* P: slope of the second RHS call
          bufs,  \* P: ring buffer per source node (<<>> when the source has none)
          rec,   \* P: stored rows (state_rec)
          ysM,   \* M: every iterate so far, Euler/Heun of the delayed recurrence (frozen stage 2)
          ysA,   \* M: same with the "advanced" second stage for delayed terms (Heun only)
          ncalls, \* number of RHS calls so far
          histP   \* P: rows held by the DDEHistory object

vars == <<case, pc, i, y, k1, y0p, k2, bufs, rec, ysM, ysA, ncalls, histP>>

M == case.m
C == case.cfg
N == M.n
Nodes == 1..N
E == M.edges
Max(S) == IF S = {} THEN 0 ELSE CHOOSE v \in S : \A w \in S : v >= w
SumSeq(s) == LET RECURSIVE F(_)
                 F(j) == IF j = 0 THEN 0 ELSE s[j] + F(j - 1)
             IN F(Len(s))

-----------------------------------------------------------------------------
(* extrinsic input: sample k (0-based) is used during step k *)
ExtAt(n, k) == IF M.ext[n] = <<>> THEN 0
               ELSE IF k + 1 <= Len(M.ext[n]) THEN M.ext[n][k + 1] ELSE M.ext[n][Len(M.ext[n])]

(* adaptive stepping: the input at time t is the linear interpolation of the N samples placed uniformly on [0, T]
   (knots j*T/(N-1)).  Half-knot lattice: position h in 0..2(N-1) is time h*T/(2(N-1)); result doubled to stay
   integral.  Positions -1 and 2(N-1)+1 stand for "any time before 0 / after T" (clamping). *)
Interp2(u, h) == LET nn == Len(u) IN
                 IF h <= 0 THEN 2 * u[1]
                 ELSE IF h >= 2 * (nn - 1) THEN 2 * u[nn]
                 ELSE IF h % 2 = 0 THEN 2 * u[h \div 2 + 1]
                 ELSE u[(h - 1) \div 2 + 1] + u[(h + 1) \div 2 + 1]
InterpTable(u) == IF u = <<>> THEN <<>> ELSE [q \in 1..(2 * (Len(u) - 1) + 3) |-> Interp2(u, q - 2)]
InterpExactAtKnots == \A n \in Nodes : M.ext[n] # <<>> =>
                        \A j \in 0..(Len(M.ext[n]) - 1) : Interp2(M.ext[n], 2 * j) = 2 * M.ext[n][j + 1]
InterpBetweenNeighbours == \A n \in Nodes : M.ext[n] # <<>> =>
                        \A j \in 0..(Len(M.ext[n]) - 2) :
                           LET a == M.ext[n][j + 1]  b == M.ext[n][j + 2]  v == Interp2(M.ext[n], 2 * j + 1) IN
                           (a <= b => (2 * a <= v /\ v <= 2 * b)) /\ (a >= b => (2 * b <= v /\ v <= 2 * a))

-----------------------------------------------------------------------------
(* Layer M: the delayed recurrence.  ys is the sequence of iterates y_0..y_k. *)
DelayedM(ys, k, e, shift) ==      \* value edge e delivers at step k (shift = 1: advanced second stage)
  LET j == k - e.lag + shift IN
  IF e.lag = 0 THEN 0 ELSE IF j < 0 THEN 0 ELSE IF j + 1 <= Len(ys) THEN e.w * ys[j + 1][e.s] ELSE 0
InstantM(yv, n) == SumSeq([q \in 1..Len(E) |-> IF E[q].t = n /\ E[q].lag = 0 THEN E[q].w * yv[E[q].s] ELSE 0])
(* delayed self term  k * past(x, lag): the history returns the initial state for times before the start *)
SelfPastM(ys, k, n, shift) ==
  LET sd == M.sd[n]  j == k - sd.lag + shift IN
  IF sd.k = 0 THEN 0 ELSE IF j <= 0 THEN sd.k * M.x0[n] ELSE IF j + 1 <= Len(ys) THEN sd.k * ys[j + 1][n] ELSE sd.k * ys[Len(ys)][n]
RhsM(ys, yv, k, shift) ==
  [n \in Nodes |-> M.c[n] + M.a[n] * yv[n] + ExtAt(n, k) + InstantM(yv, n) + SelfPastM(ys, k, n, 0)
                   + SumSeq([q \in 1..Len(E) |-> IF E[q].t = n THEN DelayedM(ys, k, E[q], shift) ELSE 0])]
VAdd(u, v) == [n \in DOMAIN u |-> u[n] + v[n]]
VHalfSum(u, v) == [n \in DOMAIN u |-> (u[n] + v[n]) \div 2]       \* models for Heun have even slopes
NextM(ys, shift) ==
  LET k == Len(ys) - 1  yk == ys[Len(ys)]  f1 == RhsM(ys, yk, k, 0) IN
  IF C.solver = "euler" THEN VAdd(yk, f1)
  ELSE LET yp == VAdd(yk, f1)
           f2 == RhsM(Append(ys, yp), yp, k, shift)     \* same step index k: time-dependent terms are frozen
       IN VAdd(yk, VHalfSum(f1, f2))

-----------------------------------------------------------------------------
(* Layer P: delay pass (pyrates/ir/circuit.py, _preprocess_edge_operations) *)
(* Source variables are grouped the way the code groups them: per source node, or, when vectorising,
   per set of structurally identical source nodes (same kind) which share one vector variable. *)
SameGroup(s1, s2) == IF C.vec THEN M.kind[s1] = M.kind[s2] ELSE s1 = s2
GroupLags(s) == {E[q].lag : q \in {q \in 1..Len(E) : SameGroup(E[q].s, s)}}
HasBuffer(s) == Max(GroupLags(s)) > 1                          \* add_delay
BufLen(s) == Max(GroupLags(s)) + 1
SlotP(e) == IF e.lag = 0 /\ "UndelayedSiblingGetsOneStep" \in Dev /\ C.form = "nodes" THEN 1 ELSE e.lag    \* None -> 1
(* Connectivity edges (form = "pop") get their buffer from _add_matrix_delay: one ring per source variable and
   connection, read at the connection's own lag; there is no sentinel slot *)
Roll(b, v) == [j \in 1..Len(b) |-> IF j = 1 THEN v ELSE b[j - 1]]       \* buf[:] = roll(buf, 1); buf[0] = v

(* the DDEHistory object as the solver uses it: histP = rows recorded so far (row 1 = initial state at t = 0,
   row j + 1 = state recorded by update((j) * dt, y)); the generated code queries hist(k*dt - tau) *)
HistQuery(j, n) == IF j <= 0 THEN histP[1][n] ELSE IF j + 1 <= Len(histP) THEN histP[j + 1][n] ELSE histP[Len(histP)][n]
HistTerm(k, n) == IF M.sd[n].k = 0 THEN 0 ELSE M.sd[n].k * HistQuery(k - M.sd[n].lag, n)

(* one call of the generated RHS at step counter k with state yv and buffers b: returns <<dy, b'>> *)
EvalRhsP(k, yv, b, roll) ==
  LET b2 == [s \in Nodes |-> IF HasBuffer(s) /\ roll THEN Roll(b[s], yv[s]) ELSE b[s]]
      Deliver(e) == IF HasBuffer(e.s) /\ SlotP(e) > 0 THEN e.w * b2[e.s][SlotP(e) + 1] ELSE e.w * yv[e.s]     \* undelayed: the state itself
      dy == [n \in Nodes |-> M.c[n] + M.a[n] * yv[n] + ExtAt(n, k) + HistTerm(k, n)
                             + SumSeq([q \in 1..Len(E) |-> IF E[q].t = n THEN Deliver(E[q]) ELSE 0])]
  IN <<dy, b2>>

-----------------------------------------------------------------------------
(* adaptive solvers: P is not modelled (step-size control is outside a discrete model); M is the exact solution
   of the polynomial chain models  x1' = c1,  x2' = c2 + w*x1  (closed form, integer at integer times) *)
ChainSol(m, t) == LET w == IF m.edges = <<>> THEN 0 ELSE m.edges[1].w
                      lag == IF m.edges = <<>> THEN 0 ELSE m.edges[1].lag     \* delayed edge: x1(t - lag), = x1(0) before the start
                      td == IF t > lag THEN t - lag ELSE 0
                  IN <<m.x0[1] + m.c[1] * t,
                       m.x0[2] + m.c[2] * t + w * m.x0[1] * t + (w * m.c[1] * td * td) \div 2>>
ExactRows(cs) == [r \in 1..(cs.cfg.steps \div cs.cfg.store) |-> ChainSol(cs.m, (r - 1) * cs.cfg.store)]

InitCase(cs) ==
        /\ case = cs
        /\ pc = (IF case.cfg.solver = "scipy" THEN "done" ELSE "store") /\ i = 0 /\ ncalls = 0
        /\ y = case.m.x0
        /\ k1 = case.m.x0 /\ k2 = case.m.x0 /\ y0p = case.m.x0
        /\ bufs = [s \in 1..case.m.n |-> <<>>]
        /\ rec = (IF case.cfg.solver = "scipy" THEN ExactRows(case) ELSE <<>>)
        /\ ysM = <<case.m.x0>> /\ ysA = <<case.m.x0>>
        /\ histP = <<case.m.x0>>
Init == \E cs \in Cases : InitCase(cs)

Setup ==  \* buffers are allocated (zero-filled) by the compile step, before the first RHS call
  [s \in Nodes |-> IF HasBuffer(s) THEN [j \in 1..BufLen(s) |-> 0] ELSE <<>>]

Store == /\ pc = "store"
         /\ IF i >= C.steps THEN pc' = "done" /\ UNCHANGED <<rec, bufs>>
            ELSE /\ pc' = "rhs1"
                 /\ rec' = IF i % C.store = 0 THEN Append(rec, y) ELSE rec
                 /\ bufs' = IF i = 0 THEN Setup ELSE bufs
         /\ UNCHANGED <<case, i, y, k1, y0p, k2, ysM, ysA, ncalls, histP>>

Rhs1 == /\ pc = "rhs1"
        /\ LET r == EvalRhsP(i, y, bufs, TRUE) IN
             /\ k1' = r[1] /\ bufs' = r[2]
             /\ y0p' = VAdd(y, r[1])
        /\ ncalls' = ncalls + 1
        /\ pc' = IF C.solver = "heun" THEN "rhs2" ELSE "adv"
        /\ UNCHANGED <<case, i, y, k2, rec, ysM, ysA, histP>>

Rhs2 == /\ pc = "rhs2"
        /\ LET r == EvalRhsP(i, y0p, bufs, "RollPerRhsCall" \in Dev) IN
             /\ k2' = r[1] /\ bufs' = r[2]
        /\ ncalls' = ncalls + 1
        /\ pc' = "adv"
        /\ UNCHANGED <<case, i, y, k1, y0p, rec, ysM, ysA, histP>>

Adv == /\ pc = "adv"
       /\ y' = IF C.solver = "euler" THEN VAdd(y, k1) ELSE VAdd(y, VHalfSum(k1, k2))
       /\ histP' = IF "HistNotUpdated" \in Dev THEN histP ELSE Append(histP, y')       \* args[0].update((i + 1) * dt, y)
       /\ ysM' = Append(ysM, NextM(ysM, 0))
       /\ ysA' = Append(ysA, NextM(ysA, 1))
       /\ i' = i + 1
       /\ pc' = "store"
       /\ UNCHANGED <<case, k1, y0p, k2, bufs, rec, ncalls>>

Next == Store \/ Rhs1 \/ Rhs2 \/ Adv
Spec == Init /\ [][Next]_vars

-----------------------------------------------------------------------------
HistoryIsTrajectory == (pc = "store" /\ C.solver # "scipy" /\ "HistNotUpdated" \notin Dev) => histP = ysM \/ histP = ysA

(* What run() returns (layer M): rows at every store-th step, index k*store, cutoff *)
RowsOf(ys) == [r \in 1..(C.steps \div C.store) |-> ys[(r - 1) * C.store + 1]]
Keep(r) == (r - 1) * C.store >= C.cut                      \* index >= cutoff
Done == pc = "done"

NoDelayModel == \A q \in 1..Len(E) : E[q].lag = 0

(* C03 / C09 design invariants *)
IterateIsM      == (pc = "store" /\ C.solver # "scipy") => (y = ysM[Len(ysM)] \/ (C.solver = "heun" /\ y = ysA[Len(ysA)]))
RowKIsStateAtK  == C.solver # "scipy" => \A r \in 1..Len(rec) : rec[r] = ysM[(r - 1) * C.store + 1] \/ (C.solver = "heun" /\ rec[r] = ysA[(r - 1) * C.store + 1])
FirstRowIsInit  == Len(rec) >= 1 => rec[1] = M.x0
RowCount        == Done => Len(rec) = C.steps \div C.store
CallsPerStep    == ncalls <= (IF C.solver = "heun" THEN 2 ELSE 1) * C.steps
(* ring buffer content: slot j holds the source value of j-1 RHS calls ago *)
BufferHoldsPast == (pc = "adv" /\ C.solver = "euler") =>
                      \A s \in Nodes : HasBuffer(s) =>
                        \A j \in 1..BufLen(s) : bufs[s][j] = (IF i - (j - 1) >= 0 THEN ysM[i - (j - 1) + 1][s] ELSE 0)
FrozenEqualsAdvancedWithoutDelays == NoDelayModel => ysM = ysA
UndeviatedP == Dev = {}

-----------------------------------------------------------------------------
(* Export at the final state: model, config, expected rows (M), what P computes, which deviations fired *)
ToRows(rows) == [r \in 1..Len(rows) |-> rows[r]]
Fired == {d \in Dev :
            \/ d = "UndelayedSiblingGetsOneStep" /\ C.form = "nodes" /\ \E q \in 1..Len(E) : E[q].lag = 0 /\ HasBuffer(E[q].s)
            \/ d = "RollPerRhsCall" /\ C.solver = "heun" /\ \E s \in Nodes : HasBuffer(s)}
SetToSeq(S) == LET RECURSIVE F(_)
                   F(T) == IF T = {} THEN <<>> ELSE LET x == CHOOSE x \in T : TRUE IN <<x>> \o F(T \ {x})
               IN F(S)
Export == Done => PrintT(<<"BEH", ToJson([m |-> M, cfg |-> C,
                                          expM |-> IF C.solver = "scipy" THEN ToRows(rec) ELSE RowsOf(ysM),
                                          expA |-> IF C.solver = "scipy" THEN ToRows(rec) ELSE RowsOf(ysA),
                                          expP |-> ToRows(rec),
                                          interp |-> [n \in Nodes |-> InterpTable(M.ext[n])],
                                          dev |-> SetToSeq(Fired)])>>)
=============================================================================
