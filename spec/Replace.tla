------------------------------- MODULE Replace -------------------------------
(***************************************************************************)
(* Equation edits change whole identifiers only (C15): parser.replace.     *)
(* An equation is a sequence of TOKENS - identifiers from a set whose      *)
(* members contain one another (r, rr, r_in, m_in2, m_in, x, x_v1) and     *)
(* delimiters.  Its text is the concatenation of the tokens; characters    *)
(* are modelled as one-character strings.                                  *)
(* Layer M: ReplaceM = substitute every token equal to the term.           *)
(* Layer P: the character scanner of parser.replace: find the next         *)
(*   occurrence of the term in the remaining text, accept it when the      *)
(*   characters on both sides are delimiters (or the text boundaries),     *)
(*   continue behind it.  Dev "RestartAtShift" is the historic scanner     *)
(*   that forgot the preceding character after a rejected occurrence.      *)
(***************************************************************************)
EXTENDS Integers, Sequences, FiniteSets, TLC, Json

CONSTANTS Eqs,   \* set of token sequences
          Dev

VARIABLES eq, term, pc
vars == <<eq, term, pc>>

Chars(tok) == CASE tok = "r" -> <<"r">> [] tok = "rr" -> <<"r", "r">> [] tok = "r_in" -> <<"r", "_", "i", "n">>
                [] tok = "m_in" -> <<"m", "_", "i", "n">> [] tok = "m_in2" -> <<"m", "_", "i", "n", "2">>
                [] tok = "x" -> <<"x">> [] tok = "x_v1" -> <<"x", "_", "v", "1">> [] tok = "in" -> <<"i", "n">>
                [] OTHER -> <<tok>>                     \* delimiters are single characters
Idents == {"r", "rr", "r_in", "m_in", "m_in2", "x", "x_v1", "in"}
Delims == {"+", "*", "(", ")", "=", " ", "-", "/", "^", "<", ">", "!", ".", "%", "@", "[", "]", ":", ","}     \* the delimiter set of parser.replace
NewTok == "Q"
RECURSIVE Flat(_)
Flat(toks) == IF toks = <<>> THEN <<>> ELSE Chars(Head(toks)) \o Flat(Tail(toks))

(* layer M *)
ReplaceM(toks, t) == Flat([i \in 1..Len(toks) |-> IF toks[i] = t THEN NewTok ELSE toks[i]])

(* layer P *)
IsDelim(c) == c \in Delims
Find(txt, pat, from) ==   \* smallest position >= from at which pat occurs in txt, 0 if none
  LET ps == {p \in from..(Len(txt) - Len(pat) + 1) : SubSeq(txt, p, p + Len(pat) - 1) = pat} IN
  IF ps = {} THEN 0 ELSE CHOOSE p \in ps : \A q \in ps : p <= q
RECURSIVE Scan(_, _, _, _)
Scan(txt, pat, out, prev) ==      \* txt: unprocessed remainder, prev: character before it ("" at the start)
  LET idx == Find(txt, pat, 1) IN
  IF idx = 0 THEN out \o txt
  ELSE LET after == idx + Len(pat)
           lead == IF idx > 1 THEN txt[idx - 1] ELSE (IF "RestartAtShift" \in Dev THEN "" ELSE prev)
           okLead == lead = "" \/ IsDelim(lead)
           okFollow == IF after > Len(txt) THEN (IF "RestartAtShift" \in Dev THEN (idx > 1 /\ IsDelim(txt[idx - 1])) ELSE TRUE)
                       ELSE IsDelim(txt[after])
           hit == okLead /\ okFollow
       IN Scan(SubSeq(txt, after, Len(txt)), pat,
               out \o (IF hit THEN SubSeq(txt, 1, idx - 1) \o <<NewTok>> ELSE SubSeq(txt, 1, after - 1)),
               txt[after - 1])
ReplaceP(toks, t) == Scan(Flat(toks), Chars(t), <<>>, "")

Init == eq \in Eqs /\ term \in Idents /\ pc = "eq"
Next == pc = "eq" /\ pc' = "done" /\ UNCHANGED <<eq, term>>
Spec == Init /\ [][Next]_vars

WellFormed(toks) == \A i \in 1..(Len(toks) - 1) : ~(toks[i] \in Idents /\ toks[i + 1] \in Idents)   \* identifiers are separated
ReplaceIsWholeIdentifier == WellFormed(eq) => ReplaceP(eq, term) = ReplaceM(eq, term)
Join(cs) == LET RECURSIVE F(_)
                F(i) == IF i > Len(cs) THEN "" ELSE cs[i] \o F(i + 1)
            IN F(1)
Export == (pc = "done" /\ WellFormed(eq) /\ \E i \in 1..Len(eq) : eq[i] \in Idents) =>
            PrintT(<<"EQ", ToJson([text |-> Join(Flat(eq)), term |-> Join(Chars(term)), expected |-> Join(ReplaceM(eq, term)),
                                   hits |-> Cardinality({i \in 1..Len(eq) : eq[i] = term})])>>)
TokSeqs(n, ids, ds) == UNION { [1..l -> ids \cup ds] : l \in 1..n }
=============================================================================
