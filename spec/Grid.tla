-------------------------------- MODULE Grid --------------------------------
(***************************************************************************)
(* Parameter sweeps (pyrates.utility.grid_search, C17).                    *)
(* A sweep = a base model, a parameter map (key -> node parameter on one   *)
(* node / on all nodes, or an edge attribute) and a grid (key -> values),  *)
(* traversed pairwise or permuted, optionally given as a table with its    *)
(* own integer row labels.                                                 *)
(* Layer M: the set of parameter rows the grid denotes; every row gets a   *)
(*   label, the returned table maps the label to the row's values, and the *)
(*   result columns under that label are those of a separate run of the    *)
(*   model adapted with these values; sub-circuits are uncoupled.          *)
(* Layer P: linearize_grid (zip / meshgrid order), the loop over the table *)
(*   index that names sub-circuit <name>_<index label> and reads the row   *)
(*   *labelled* idx.                                                       *)
(***************************************************************************)
EXTENDS Integers, Sequences, FiniteSets, TLC, Json

CONSTANTS Cases, Dev
(* case: [vals : Seq(Seq(Int)) (one value list per key), permute : BOOLEAN, index : Seq(Int) (row labels of a table, <<>> = default),
          keys : Seq([kind, node, edge]) , model : Nat (which base model the harness uses), cfg...] *)
VARIABLES cs, pc, tableP
vars == <<cs, pc, tableP>>

NK == Len(cs.vals)
Zip == [i \in 1..Len(cs.vals[1]) |-> [k \in 1..NK |-> cs.vals[k][i]]]
(* np.meshgrid(x, y) (indexing 'xy') stacked and reshaped: y is the outer loop, x the inner one *)
Mesh == IF NK = 1 THEN [i \in 1..Len(cs.vals[1]) |-> <<cs.vals[1][i]>>]
        ELSE LET nx == Len(cs.vals[1])  ny == Len(cs.vals[2]) IN
             [r \in 1..(nx * ny) |-> <<cs.vals[1][((r - 1) % nx) + 1], cs.vals[2][((r - 1) \div nx) + 1]>>]
RowsLin == IF cs.permute THEN Mesh ELSE Zip
(* Layer M: the rows as a bag, independent of order *)
BagOf(rows) == [v \in {rows[i] : i \in 1..Len(rows)} |-> Cardinality({i \in 1..Len(rows) : rows[i] = v})]
Product == IF NK = 1 THEN {<<a>> : a \in {cs.vals[1][i] : i \in 1..Len(cs.vals[1])}}
           ELSE {<<a, b>> : a \in {cs.vals[1][i] : i \in 1..Len(cs.vals[1])}, b \in {cs.vals[2][i] : i \in 1..Len(cs.vals[2])}}
RowsM == IF cs.permute THEN Product ELSE {Zip[i] : i \in 1..Len(Zip)}

(* Layer P: grid_search's loop: for idx in table.index: values = table[key][idx] (label-based), name = <base>_<idx> *)
Labels == IF cs.index = <<>> THEN [i \in 1..Len(RowsLin) |-> i - 1] ELSE cs.index
RowLabelled(idx) == LET pos == CHOOSE p \in 1..Len(Labels) : Labels[p] = idx IN RowsLin[pos]
RowAtPosition(p) == RowsLin[p]
TableP == [p \in 1..Len(Labels) |->
             [label |-> Labels[p],
              vals |-> IF "PositionalLookup" \in Dev THEN RowAtPosition(Labels[p] + 1) ELSE RowLabelled(Labels[p])]]

Init == cs \in Cases /\ pc = "start" /\ tableP = <<>>
Run == pc = "start" /\ pc' = "done" /\ tableP' = TableP /\ UNCHANGED cs
Next == Run
Spec == Init /\ [][Next]_vars

LabelsInjective == pc = "done" => \A p, q \in 1..Len(tableP) : p # q => tableP[p].label # tableP[q].label
EveryRowOnce == pc = "done" => /\ {tableP[p].vals : p \in 1..Len(tableP)} = RowsM
                               /\ Len(tableP) = (IF cs.permute THEN Cardinality(Product) ELSE Len(Zip))
(* the values simulated under a label are the values the table (as handed in / as linearised) shows for that label *)
LabelKeepsItsRow == pc = "done" => \A p \in 1..Len(tableP) : tableP[p].vals = RowsLin[p]
Export == pc = "done" => PrintT(<<"CASE", ToJson([cs |-> cs, table |-> tableP])>>)
=============================================================================
