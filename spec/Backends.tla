------------------------------ MODULE Backends ------------------------------
(***************************************************************************)
(* Per-backend primitives the shared code generator delegates to, as       *)
(* implemented, against the reference meaning (C02):                       *)
(*   Interp_b   interpolation of a sampled input (NumPy/JAX: numpy.interp;  *)
(*              Torch helper; Fortran helper finterp)                      *)
(*   Index_b    element / slice addressing (0-based half-open vs 1-based   *)
(*              inclusive)                                                 *)
(*   Roll_b     ring-buffer shift (roll(buf, 1) vs cshift(buf, -1))        *)
(*   Heun_b     which step counter the corrector stage receives            *)
(* Invariants: every primitive of every backend equals the reference on    *)
(* the whole lattice.  Dev switches on the historic deviations.            *)
(* Values are integers; query positions are on the half-knot lattice       *)
(* (position h = time h/2 between samples k = 0 .. N-1), results doubled.  *)
(***************************************************************************)
EXTENDS Integers, Sequences, FiniteSets, TLC

CONSTANTS Samples,   \* set of sample sequences
          Dev
BackendsAll == {"numpy", "jax", "torch", "fortran"}
VARIABLES u, pc
vars == <<u, pc>>
N == Len(u)

(* reference: numpy.interp on knots 0..N-1, clamped; h in -2 .. 2(N-1)+2 *)
Ref2(h) == IF h <= 0 THEN 2 * u[1] ELSE IF h >= 2 * (N - 1) THEN 2 * u[N]
           ELSE IF h % 2 = 0 THEN 2 * u[h \div 2 + 1] ELSE u[(h - 1) \div 2 + 1] + u[(h + 1) \div 2 + 1]

(* torch helper: nearest knot idx (ties -> lower index); neighbours (idx-1, idx) if x[idx] > q else (idx, idx+1) *)
Nearest(h) == LET hh == IF h < 0 THEN 0 ELSE IF h > 2 * (N - 1) THEN 2 * (N - 1) ELSE h
              IN IF hh % 2 = 0 THEN hh \div 2 ELSE (hh - 1) \div 2            \* knot index 0-based; argmin picks the first minimum
TorchInterp2(h) ==
  LET idx == Nearest(h)
      i1 == IF 2 * idx > h THEN idx - 1 ELSE idx
      i2 == i1 + 1
  IN IF "TorchInterpNearest" \in Dev THEN 2 * u[(IF i1 < 0 THEN 0 ELSE IF i1 > N - 1 THEN N - 1 ELSE i1) + 1]
     ELSE IF i1 < 0 THEN 2 * u[1] ELSE IF i2 >= N THEN 2 * u[N]
     ELSE 2 * u[i1 + 1] + (h - 2 * i1) * (u[i2 + 1] - u[i1 + 1])
(* fortran helper: first n (1-based) with x(n) > q; y(n-1) + alpha (y(n) - y(n-1)) *)
FortranInterp2(h) ==
  IF h < 0 THEN 2 * u[1] ELSE IF h > 2 * (N - 1) THEN 2 * u[N]
  ELSE LET ns == {n \in 1..N : 2 * (n - 1) > h} IN
       IF ns = {} THEN 2 * u[N]
       ELSE LET n == CHOOSE n \in ns : \A m \in ns : n <= m IN
            IF n = 1 THEN 2 * u[1]
            ELSE LET base == IF "FortranInterpBase" \in Dev THEN u[n] ELSE u[n - 1] IN
                 2 * base + (h - 2 * (n - 2)) * (u[n] - u[n - 1])
Interp2(b, h) == CASE b \in {"numpy", "jax"} -> Ref2(h) [] b = "torch" -> TorchInterp2(h) [] b = "fortran" -> FortranInterp2(h)

(* addressing: the generator asks for element i (0-based) / slice [a, b) of a vector *)
Elem(b, v, i) == IF b = "fortran" THEN v[(i + 1)] ELSE v[i + 1]                      \* 1-based index i+1 vs 0-based i
SliceP(b, v, a, e) == IF b = "fortran" THEN SubSeq(v, a + 1, IF "FortranSliceExclusive" \in Dev THEN e - 1 ELSE e)   \* (a+1):e inclusive
                      ELSE SubSeq(v, a + 1, e)                                                                  \* a:e half-open
SliceRef(v, a, e) == SubSeq(v, a + 1, e)
(* ring buffer shift by one towards higher indices *)
RollRef(v) == [j \in 1..Len(v) |-> IF j = 1 THEN v[Len(v)] ELSE v[j - 1]]
RollP(b, v) == IF b = "fortran" /\ "CshiftSign" \in Dev THEN [j \in 1..Len(v) |-> IF j = Len(v) THEN v[1] ELSE v[j + 1]]   \* cshift(v, +1)
               ELSE RollRef(v)                                                                                          \* cshift(v, -1) = roll(v, 1)

Init == u \in Samples /\ pc = "go"
Next == pc = "go" /\ pc' = "done" /\ UNCHANGED u
Spec == Init /\ [][Next]_vars

HRange == -2..(2 * (N - 1) + 2)
InterpRefines == \A b \in BackendsAll : \A h \in HRange : Interp2(b, h) = Ref2(h)
IndexRefines == \A b \in BackendsAll : \A a \in 0..(N - 1) : \A e \in (a + 1)..N : SliceP(b, u, a, e) = SliceRef(u, a, e)
RollRefines == \A b \in BackendsAll : RollP(b, u) = RollRef(u)
SampleSets(n, vals) == UNION { [1..l -> vals] : l \in 2..n }
=============================================================================
