#!/usr/bin/env python3
"""tools/seeded.py import <srcdir> <name>         copy a confirmed seeded change into /verif/seeded/<name>
   tools/seeded.py run <name> [<pid> ...] [--tier T]   apply it to /repo, run the checks, undo it; prints DETECTED/MISSED"""
import json, os, shutil, subprocess, sys
ROOT = os.path.dirname(os.path.dirname(os.path.abspath(__file__)))


def sh(cmd, **kw):
    return subprocess.run(cmd, shell=True, text=True, stdout=subprocess.PIPE, stderr=subprocess.STDOUT, **kw)


def run_scratch(scratch, name, d, pids, tier):
    """Same as run, on a private export of /repo's HEAD under <scratch>; evidence / replay files go to <scratch>/verif-out."""
    shutil.rmtree(scratch, ignore_errors=True)
    os.makedirs(scratch)
    try:
        assert sh(f'git -C /repo archive HEAD | tar -x -C {scratch}').returncode == 0
        r = sh(f'cd {scratch} && git init -q . && git apply {d}/patch.diff')
        if r.returncode:
            print('PATCH-DOES-NOT-APPLY', name, r.stdout); sys.exit(3)
        env = dict(os.environ, PYTHONPATH=scratch, VERIF_REPO=scratch, PYRATES_VERIF_OUT=os.path.join(scratch, 'verif-out'))
        for pid in pids:
            r = sh(f'{ROOT}/check {pid} --tier {tier}', cwd=ROOT, env=env)
            viol = [l for l in r.stdout.splitlines() if l.startswith('VIOLATION')]
            print(f"{name} {pid} {tier}: {'DETECTED' if r.returncode == 1 and viol else 'MISSED' if r.returncode == 0 else 'MACHINERY rc=%d' % r.returncode}"
                  f" ({len(viol)} violation lines)")
            if r.returncode not in (0, 1):
                print(r.stdout[-1500:])
    finally:
        shutil.rmtree(scratch, ignore_errors=True)


def main():
    cmd = sys.argv[1]
    if cmd == 'import':
        src, name = sys.argv[2], sys.argv[3]
        dst = os.path.join(ROOT, 'seeded', name)
        os.makedirs(dst, exist_ok=True)
        for f in ('patch.diff', 'demo.py', 'meta.json'):
            shutil.copy(os.path.join(src, f), dst)
        print('imported', dst)
    elif cmd == 'run':
        args = sys.argv[2:]
        tier = 'quick'
        if '--tier' in args:
            i = args.index('--tier'); tier = args[i + 1]; del args[i:i + 2]
        scratch = None
        if '--scratch' in args:       # run against a scratch copy of /repo's HEAD (leaves /repo and /verif/evidence alone)
            i = args.index('--scratch'); scratch = args[i + 1]; del args[i:i + 2]
        name, pids = args[0], args[1:]
        d = os.path.join(ROOT, 'seeded', name)
        meta = json.load(open(os.path.join(d, 'meta.json')))
        pids = pids or [meta['property']]
        if scratch:
            return run_scratch(scratch, name, d, pids, tier)
        assert sh('git -C /repo status --porcelain --untracked-files=no').stdout.strip() == '', '/repo not clean'
        r = sh(f'git -C /repo apply {d}/patch.diff')
        if r.returncode:
            print('PATCH-DOES-NOT-APPLY', name, r.stdout); sys.exit(3)
        try:
            for pid in pids:
                r = sh(f'{ROOT}/check {pid} --tier {tier}', cwd=ROOT)
                viol = [l for l in r.stdout.splitlines() if l.startswith('VIOLATION')]
                print(f"{name} {pid} {tier}: {'DETECTED' if r.returncode == 1 and viol else 'MISSED' if r.returncode == 0 else 'MACHINERY rc=%d' % r.returncode}"
                      f" ({len(viol)} violation lines)")
                if r.returncode not in (0, 1):
                    print(r.stdout[-1500:])
        finally:
            sh(f'git -C /repo apply -R {d}/patch.diff')
            assert sh('git -C /repo status --porcelain --untracked-files=no').stdout.strip() == '', 'undo failed'


main()
