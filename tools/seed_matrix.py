#!/usr/bin/env python3
"""Runs every seeded change against the check(s) that should notice it and writes seeded/RESULTS.json (sequential: /repo is patched)."""
import json, os, subprocess, sys, time
ROOT = os.path.dirname(os.path.dirname(os.path.abspath(__file__)))
# which checks to run per seeded change (default: its own property); extra cross-property pairs
EXTRA2 = {'C01-m4': ['C07'], 'C06-m4': ['C07'], 'C02-m3': ['C20'], 'C02-m4': ['C02'], 'C03-m3': ['C03'],
          'C04-m3': ['C04'], 'C04-m4': ['C11'], 'C08-m3': ['C02'], 'C08-m4': ['C13'], 'C10-m3': ['C10'],
          'C13-m3': ['C07'], 'C14-m3': ['C14', 'C15'], 'C15-m4': ['C15', 'C14'], 'C17-m4': ['C08'],
          'C19-m3': ['C19'], 'C01-m3': ['C04'], 'C05-m3': ['C15'], 'C05-m4': ['C20'], 'C06-m3': ['C01', 'C04'], 'C10-m3': ['C10', 'C19']}
EXTRA4 = {'C06-m5': ['C07'], 'C10-m5': ['C19'], 'C12-m6': ['C18'], 'C18-m6': ['C18']}
EXTRA3 = {'C03-m5': ['C02', 'C03'], 'C08-m6': ['C02'], 'C01-m5': ['C07', 'C01'], 'C01-m6': ['C01', 'C04'], 'C07-m6': ['C07']}
EXTRA = {'C03-m1': ['C10'], 'C06-m2': ['C04'], 'C17-m2': ['C04', 'C17'], 'C16-m1': ['C09', 'C16'], 'C14-m1': ['C14', 'C15'], 'C15-m1': ['C15', 'C14']}
res = {}
names = sorted(d for d in os.listdir(os.path.join(ROOT, 'seeded')) if os.path.isdir(os.path.join(ROOT, 'seeded', d)))
scratch = '--scratch' in sys.argv
OUT = 'RESULTS.json'
if '--out' in sys.argv:
    i = sys.argv.index('--out'); OUT = sys.argv[i + 1]; del sys.argv[i:i + 2]
only = [a for a in sys.argv[1:] if a != '--scratch']
if (only or scratch) and os.path.exists(os.path.join(ROOT, 'seeded', OUT)):
    res = json.load(open(os.path.join(ROOT, 'seeded', OUT)))      # partial re-run: keep the other rows
for n in names:
    if only and n not in only:
        continue
    meta = json.load(open(os.path.join(ROOT, 'seeded', n, 'meta.json')))
    if str(meta.get('status', '')).startswith('neutralised'):
        res[n] = dict(status='neutralised'); continue
    pids = EXTRA.get(n) or EXTRA2.get(n) or EXTRA3.get(n) or (EXTRA4.get(n) if meta.get('round') == 2 and n.endswith(('m5', 'm6')) else None) or [meta['property']]
    t0 = time.time()
    p = subprocess.run([sys.executable, os.path.join(ROOT, 'tools', 'seeded.py'), 'run', n] + pids + (['--scratch', f'/tmp/pyrates-verif-seed-{n}'] if scratch else []), text=True, stdout=subprocess.PIPE, stderr=subprocess.STDOUT)
    out = [l for l in p.stdout.splitlines() if n in l]
    res[n] = dict(lines=out, detected_by=[l.split()[1] for l in out if 'DETECTED' in l], wall_s=round(time.time() - t0, 1))
    print(n, res[n]['detected_by'] or out, flush=True)
    json.dump(res, open(os.path.join(ROOT, 'seeded', OUT), 'w'), indent=1)
