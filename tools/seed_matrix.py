#!/usr/bin/env python3
"""Runs every seeded change against the check(s) that should notice it and writes seeded/RESULTS.json (sequential: /repo is patched)."""
import json, os, subprocess, sys, time
ROOT = os.path.dirname(os.path.dirname(os.path.abspath(__file__)))
# which checks to run per seeded change (default: its own property); extra cross-property pairs
EXTRA = {'C03-m1': ['C10'], 'C06-m2': ['C04'], 'C17-m2': ['C04', 'C17'], 'C16-m1': ['C09', 'C16'], 'C14-m1': ['C14', 'C15'], 'C15-m1': ['C15', 'C14']}
res = {}
names = sorted(d for d in os.listdir(os.path.join(ROOT, 'seeded')) if os.path.isdir(os.path.join(ROOT, 'seeded', d)))
only = sys.argv[1:]
if only and os.path.exists(os.path.join(ROOT, 'seeded', 'RESULTS.json')):
    res = json.load(open(os.path.join(ROOT, 'seeded', 'RESULTS.json')))      # partial re-run: keep the other rows
for n in names:
    if only and n not in only:
        continue
    meta = json.load(open(os.path.join(ROOT, 'seeded', n, 'meta.json')))
    if str(meta.get('status', '')).startswith('neutralised'):
        res[n] = dict(status='neutralised'); continue
    pids = EXTRA.get(n, [meta['property']])
    t0 = time.time()
    p = subprocess.run([sys.executable, os.path.join(ROOT, 'tools', 'seeded.py'), 'run', n] + pids, text=True, stdout=subprocess.PIPE, stderr=subprocess.STDOUT)
    out = [l for l in p.stdout.splitlines() if n in l]
    res[n] = dict(lines=out, detected_by=[l.split()[1] for l in out if 'DETECTED' in l], wall_s=round(time.time() - t0, 1))
    print(n, res[n]['detected_by'] or out, flush=True)
    json.dump(res, open(os.path.join(ROOT, 'seeded', 'RESULTS.json'), 'w'), indent=1)
