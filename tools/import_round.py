#!/usr/bin/env python3
"""tools/import_round.py <srcroot> <pid> <first index>: copies <srcroot>/<pid>/MUTATION{1,2} to seeded/<pid>-m<k>, after
re-confirming on a private export of /repo's HEAD that the patch applies and the demo fails only with it."""
import json, os, shutil, subprocess, sys, tempfile
ROOT = os.path.dirname(os.path.dirname(os.path.abspath(__file__)))
src, pid, first = sys.argv[1], sys.argv[2], int(sys.argv[3])


def sh(cmd, **kw):
    return subprocess.run(cmd, shell=True, text=True, stdout=subprocess.PIPE, stderr=subprocess.STDOUT, **kw)


for k, mdir in enumerate(('MUTATION1', 'MUTATION2')):
    d = os.path.join(src, pid, mdir)
    if not os.path.exists(os.path.join(d, 'patch.diff')):
        print(pid, mdir, 'missing'); continue
    name = f'{pid}-m{first + k}'
    scratch = tempfile.mkdtemp(prefix='pyrates-verif-imp-')
    try:
        sh(f'git -C /repo archive HEAD | tar -x -C {scratch}')
        run = os.path.join(scratch, 'run'); os.makedirs(run)
        shutil.copy(os.path.join(d, 'demo.py'), run)
        env = dict(os.environ, PYTHONPATH=scratch)
        r0 = sh('/venv/bin/python -W ignore demo.py', cwd=run, env=env, timeout=900)
        a = sh(f'cd {scratch} && git init -q . && git apply {d}/patch.diff')
        r1 = sh('/venv/bin/python -W ignore demo.py', cwd=run, env=env, timeout=900)
        ok = r0.returncode == 0 and a.returncode == 0 and r1.returncode != 0
        print(name, 'demo unchanged rc', r0.returncode, 'apply rc', a.returncode, 'demo changed rc', r1.returncode, 'CONFIRMED' if ok else 'NOT CONFIRMED')
        if ok:
            dst = os.path.join(ROOT, 'seeded', name); os.makedirs(dst, exist_ok=True)
            for f in ('patch.diff', 'demo.py', 'meta.json'):
                shutil.copy(os.path.join(d, f), dst)
            m = json.load(open(os.path.join(dst, 'meta.json'))); m['round'] = 2
            json.dump(m, open(os.path.join(dst, 'meta.json'), 'w'), indent=2)
    finally:
        shutil.rmtree(scratch, ignore_errors=True)
