#!/usr/bin/env python3
"""tools/merge_results.py: merges seeded/RESULTS_s*.json (parallel streams of tools/seed_matrix.py --out ...) into
seeded/RESULTS.json and prints a summary."""
import glob, json, os
ROOT = os.path.dirname(os.path.dirname(os.path.abspath(__file__)))
res = {}
for f in sorted(glob.glob(os.path.join(ROOT, 'seeded', 'RESULTS_s*.json'))):
    res.update(json.load(open(f)))
names = sorted(d for d in os.listdir(os.path.join(ROOT, 'seeded')) if os.path.isdir(os.path.join(ROOT, 'seeded', d)))
out = {}
for n in names:
    meta = json.load(open(os.path.join(ROOT, 'seeded', n, 'meta.json')))
    r = dict(res.get(n, dict(status='not run')))
    r['property'] = meta['property']
    r['round'] = meta.get('round', 1) if not n.endswith(('m5', 'm6')) else 3
    if str(meta.get('status', '')).startswith('neutralised'):
        r = dict(status='neutralised', property=meta['property'], round=r['round'], note=meta['status'])
    out[n] = r
json.dump(out, open(os.path.join(ROOT, 'seeded', 'RESULTS.json'), 'w'), indent=1)
det = [n for n, r in out.items() if r.get('detected_by')]
neu = [n for n, r in out.items() if r.get('status') == 'neutralised']
mis = [n for n, r in out.items() if not r.get('detected_by') and r.get('status') != 'neutralised']
print(f'{len(out)} changes: {len(det)} detected, {len(neu)} neutralised {neu}, {len(mis)} not detected {mis}')
